//! C14 — generating a key into an existing keyring keeps every existing key.
use crate::cli::{self, In, Sandbox};
use crate::core::{ok, set_rule, CheckResult, Ctx};
use crate::ensure;
use crate::keyring::Keyring;
use proptest::prelude::*;
use serde::{Deserialize, Serialize};

#[derive(Clone, Debug, Serialize, Deserialize)]
pub enum Initial { Absent, Empty, Keyring { entries: usize, trailing_newline: bool, comments: bool, with_private: bool },
    /// a keyring of more than `kib` KiB (long comment blocks between a few entries)
    Huge { kib: usize } }
#[derive(Clone, Debug, Serialize, Deserialize)]
pub struct History { pub initial: Initial, pub gens: Vec<(String, String)>, pub seed: u64, pub use_keys: bool,
    /// before generation #k (1-based) one generation is attempted with a file-size limit equal to the current size: it must fail and lose nothing
    #[serde(default)] pub quota_before: Option<u8>,
    /// KESTREL_NEW_PASSWORD (used only by change-pass) is set to a stale value during every generation
    #[serde(default)] pub stale_new_password: bool,
    /// keys.txt is a symbolic link to the real file (dotfile managers do that)
    #[serde(default)] pub via_symlink: bool }

fn initial_text(i: &Initial, seed: u64) -> Option<String> {
    match i {
        Initial::Absent => None, Initial::Empty => Some(String::new()),
        Initial::Huge { kib } => {
            let mut s = String::from("# team keyring\n"); let filler = format!("# {}\n", "contact note ".repeat(8));
            for e in 0..3 { let sk = crate::gen::key32(seed.wrapping_add(e), "c14-init"); s.push_str(&kspec::keyring_entry(&format!("existing-{}", e), &kspec::encode_public_key(&kspec::x25519_base(&sk)), None)); while s.len() < (e as usize + 1) * kib * 1024 / 3 + 1 { s.push_str(&filler); } s.push('\n'); }
            Some(s)
        }
        Initial::Keyring { entries, trailing_newline, comments, with_private } => {
            let mut s = String::new();
            if *comments { s.push_str("# my keyring\n\n"); }
            for e in 0..*entries {
                let sk = crate::gen::key32(seed.wrapping_add(e as u64), "c14-init"); let pk = kspec::x25519_base(&sk);
                let locked = kspec::lock_private_key_with(&crate::gen::key32(e as u64, "c14-k"), &sk, &crate::gen::key32(e as u64, "c14-s"));
                if e > 0 { s.push('\n'); }
                s.push_str(&kspec::keyring_entry(&format!("existing-{}", e), &kspec::encode_public_key(&pk), if *with_private { Some(&locked) } else { None }));
                if *comments && e == 0 { s.push_str("# a friend\n"); }
            }
            if !*trailing_newline { while s.ends_with('\n') { s.pop(); } }
            Some(s)
        }
    }
}

pub fn check(h: &History) -> CheckResult {
    let sb = Sandbox::new();
    let f = sb.path("keys.txt");
    let init = initial_text(&h.initial, h.seed);
    if h.via_symlink && init.is_some() { let real = sb.path("real-keyring.txt"); std::fs::write(&real, init.as_ref().unwrap()).map_err(|e| e.to_string())?; std::os::unix::fs::symlink("real-keyring.txt", &f).map_err(|e| e.to_string())?; }
    else if let Some(t) = &init { std::fs::write(&f, t).map_err(|e| e.to_string())?; }
    let mut prev: Vec<u8> = init.clone().unwrap_or_default().into_bytes();
    let mut made: Vec<(String, String)> = Vec::new();
    for (raw_name, pw) in &h.gens {
        let name = raw_name.trim().to_string();
        if name.contains('\n') || name.starts_with("existing-") || made.iter().any(|(n, _)| *n == name) { continue; }
        if h.quota_before.map(|q| q as usize == made.len() + 1).unwrap_or(false) && !prev.is_empty() {
            // pad to a whole number of 512-byte blocks with a comment, then forbid the file to grow: the generation must fail and the file must survive
            let mut padded = prev.clone(); if !padded.ends_with(b"\n") { padded.push(b'\n'); } while padded.len() % 512 != 0 { let room = 512 - padded.len() % 512; if room == 1 { padded.push(b'\n'); } else { padded.push(b'#'); padded.extend(std::iter::repeat(b'.').take(room - 2)); padded.push(b'\n'); } }
            std::fs::write(&f, &padded).map_err(|e| e.to_string())?; prev = padded;
            let mut c = sb.cmd(&["key", "generate", "-o", "keys.txt", "--env-pass"]).env("KESTREL_PASSWORD", pw).stdin(In::Bytes(b"quota-victim\n".to_vec())); c.fsize_blocks = Some((prev.len() / 512) as u64);
            let r = c.run();
            ensure!(r.code == Some(1), "key generate into a file that cannot grow exited {:?}: {}", r.code, r.describe());
            let now = std::fs::read(&f).map_err(|_| "after a failed key generate (no space) the key file is GONE: every existing key was lost".to_string())?;
            ensure!(now.len() >= prev.len() && now[..prev.len()] == prev[..], "a failed key generate (no space) did not preserve the existing contents ({} bytes before, {} after)", prev.len(), now.len());
            if now.len() > prev.len() { std::fs::write(&f, &prev).map_err(|e| e.to_string())?; }
        }
        let mut gen_cmd = sb.cmd(&["key", "generate", "-o", "keys.txt", "--env-pass"]).env("KESTREL_PASSWORD", pw).stdin(In::Bytes(format!("{}\n", name).into_bytes()));
        if h.stale_new_password { gen_cmd = gen_cmd.env("KESTREL_NEW_PASSWORD", "a stale value from an earlier change-pass"); }
        let r = gen_cmd.run();
        if r.code != Some(0) {
            // the tool decides which names it takes; a refusal must leave the file alone (C13 covers that), and is not a C14 matter
            ensure!(r.code == Some(1), "key generate ended abnormally: {}", r.describe());
            ensure!(!Keyring::valid_key_name(&name), "key generate failed for an acceptable name {:?}: {}", name, r.describe());
            continue;
        }
        let now = std::fs::read(&f).map_err(|e| format!("key file missing after a successful key generate: {}", e))?;
        ensure!(now.len() > prev.len() && now[..prev.len()] == prev[..], "key generate -o on an existing file did not preserve its contents: {} bytes before, {} bytes after, earlier contents {} a prefix (generation #{} into {:?})", prev.len(), now.len(), if now.len() >= prev.len() && now[..prev.len()] == prev[..] { "are" } else { "are NOT" }, made.len() + 1, h.initial);
        made.push((name.clone(), pw.clone()));
        let text = String::from_utf8(now.clone()).map_err(|_| "key file is not UTF-8".to_string())?;
        let kr = Keyring::new(&text).map_err(|e| format!("key file no longer parses as a keyring after generating {:?}: {}", name, e))?;
        for (n, _) in &made { ensure!(kr.get_key(n).is_some(), "key {:?} generated earlier is no longer in the file", n); }
        if let Initial::Huge { .. } = &h.initial { for e in 0..3 { ensure!(kr.get_key(&format!("existing-{}", e)).is_some(), "pre-existing key existing-{} is no longer in the file", e); } }
        if let Initial::Keyring { entries, .. } = &h.initial { for e in 0..*entries { ensure!(kr.get_key(&format!("existing-{}", e)).is_some(), "pre-existing key existing-{} is no longer in the file", e); } }
        // the new key is usable with its own password and matches its PublicKey line
        let k = kr.get_key(&name).unwrap();
        let esk = k.private_key.as_ref().ok_or("generated entry has no private key")?;
        let sk = Keyring::unlock_private_key(esk, pw.as_bytes()).map_err(|_| format!("generated key {:?} does not unlock with its own password", name))?;
        let pk = Keyring::decode_public_key(&k.public_key).map_err(|e| e.to_string())?;
        ensure!(sk.to_public().map_err(|_| "to_public failed")?.as_bytes() == pk.as_bytes(), "PublicKey line of {:?} is not the public key of its private key", name);
        prev = now;
    }
    if matches!(h.initial, Initial::Huge { .. }) && !made.is_empty() {
        // the tool itself must still find the newest key in the big file (it reads the keyring its own way)
        let me = &made[made.len() - 1]; sb.write("m1.txt", b"big keyring");
        let r = sb.cmd(&["encrypt", "m1.txt", "-t", &me.0, "-f", &me.0, "-o", "m1.ktl", "-k", "keys.txt", "--env-pass"]).env("KESTREL_PASSWORD", &me.1).run();
        ensure!(r.code == Some(0), "the key just generated into a {} byte keyring cannot be used by the tool: {}", prev.len(), r.describe());
    }
    if h.use_keys && made.len() >= 2 {
        // every key generated so far is usable: encrypt from the first to the last and back
        let (from, to) = (&made[0], &made[made.len() - 1]);
        sb.write("msg.txt", b"use the keys");
        let r = sb.cmd(&["encrypt", "msg.txt", "-t", &to.0, "-f", &from.0, "-o", "msg.ktl", "-k", "keys.txt", "--env-pass"]).env("KESTREL_PASSWORD", &from.1).run();
        ensure!(r.code == Some(0), "encrypt with generated keys failed: {}", r.describe());
        let r = sb.cmd(&["decrypt", "msg.ktl", "-t", &to.0, "-o", "msg.out", "-k", "keys.txt", "--env-pass"]).env("KESTREL_PASSWORD", &to.1).run();
        ensure!(r.code == Some(0) && sb.read("msg.out").as_deref() == Some(&b"use the keys"[..]), "decrypt with generated keys failed: {}", r.describe());
        ensure!(r.stderr_s().contains(&format!("File from: {}", from.0)), "decrypt did not name the generated sender key: {}", r.stderr_s());
    }
    let nontrivial = made.len() >= 2 || (made.len() == 1 && !matches!(h.initial, Initial::Absent));
    ok(nontrivial, format!("{}gens/{}", made.len(), match &h.initial { Initial::Absent => "absent", Initial::Empty => "empty", Initial::Keyring { trailing_newline: true, .. } => "keyring", Initial::Huge { .. } => "huge-keyring", _ => "keyring-no-trailing-newline" }))
}

pub fn strat() -> impl Strategy<Value = History> {
    let initial = prop_oneof![4 => Just(Initial::Absent), 2 => Just(Initial::Empty), 8 => (1usize..4, any::<bool>(), any::<bool>(), any::<bool>()).prop_map(|(entries, trailing_newline, comments, with_private)| Initial::Keyring { entries, trailing_newline, comments, with_private }), 1 => prop_oneof![Just(70usize), Just(1100), Just(4200)].prop_map(|kib| Initial::Huge { kib })];
    (initial, proptest::collection::vec((super::c17::name_strategy(), crate::gen::env_password_strategy()), 1..5), any::<u64>(), prop::bool::weighted(0.35), proptest::option::weighted(0.3, 1u8..4), any::<bool>(), prop::bool::weighted(0.25)).prop_map(|(initial, mut gens, seed, use_keys, quota_before, stale_new_password, via_symlink)| {
        // one history in three generates, after a name, a key whose name is the beginning of that name ("alice-work", then "alice")
        if seed % 3 == 0 && gens.len() >= 2 { let first = gens[0].0.trim().to_string(); let cut: String = first.chars().take((first.chars().count() + 1) / 2).collect(); let cut = cut.trim().to_string(); if !cut.is_empty() && cut != first { gens[1].0 = cut; } }
        History { initial, gens, seed, use_keys, quota_before: if via_symlink { None } else { quota_before }, stale_new_password, via_symlink } })
}

pub fn run(ctx: &Ctx) {
    set_rule("C14", "histories: initial state of F in {absent, empty, specification-written keyring of 1..3 entries with/without trailing newline, with/without comment and blank lines, with/without private keys} followed by 1..4 `kestrel key generate -o F --env-pass` runs of the binary built from the working tree, with distinct names from the domain key generation accepts and arbitrary UTF-8 passwords (incl. empty and > 64 bytes). After every step: earlier bytes are a prefix of the new bytes, the file parses with the working tree's Keyring::new, every name so far is present, the new key unlocks under its own password and matches its PublicKey line; finally encrypt/decrypt between generated keys. Non-trivial = >= 2 generations or a generation into an existing file; distinct by hash of the history");
    ctx.assume("Linux; no terminal (the name is supplied on stdin, the password through KESTREL_PASSWORD)");
    ctx.shrink_iters.store(40, std::sync::atomic::Ordering::Relaxed);
    ctx.sse_vec("keygen_fixed_histories", "a keyring above 1 MiB; a generation that fails for lack of space between two successful ones; a stale KESTREL_NEW_PASSWORD in the environment", vec![
        History { initial: Initial::Huge { kib: 1100 }, gens: vec![("newest".into(), "pw".into())], seed: 1, use_keys: false, quota_before: None, stale_new_password: false, via_symlink: false },
        History { initial: Initial::Keyring { entries: 2, trailing_newline: true, comments: true, with_private: true }, gens: vec![("k1".into(), "p1".into()), ("k2".into(), "p2".into())], seed: 2, use_keys: true, quota_before: Some(2), stale_new_password: true, via_symlink: false },
        History { initial: Initial::Absent, gens: vec![("k1".into(), "".into()), ("k2".into(), "p2".into())], seed: 3, use_keys: false, quota_before: Some(2), stale_new_password: true, via_symlink: false },
        History { initial: Initial::Keyring { entries: 2, trailing_newline: true, comments: false, with_private: false }, gens: vec![("k1".into(), "p1".into()), ("k2".into(), "p2".into())], seed: 4, use_keys: true, quota_before: None, stale_new_password: false, via_symlink: true }], check);
    ctx.pbt("keygen_histories", ctx.n(160, 2_500), strat, check);
}
