#!/usr/bin/env python3
"""Seeded-change protocol.
  seeded.py confirm <ID> <A|B>          in the scratch worktree /tmp/seed/<ID>: the repository suite passes with the change,
                                        the demonstration fails with it and passes without it
  seeded.py try <ID> <A|B> <CHECK...>   apply the patch to /repo, run ./check <CHECK> quick for each, undo the patch
  seeded.py keep <ID> <A|B> <name>      copy patch/demo/meta into /verif/seeded/<name>/
Results are appended to /tmp/seed/results.jsonl."""
import sys, os, re, subprocess, json, shutil, time
def sh(cmd, cwd=None, timeout=3600):
    p = subprocess.run(cmd, shell=True, cwd=cwd, capture_output=True, text=True, timeout=timeout)
    return p.returncode, p.stdout + p.stderr
def how(out):
    t = open(os.path.join(out, "demo_how.txt")).read()
    demos = [f for f in os.listdir(out) if f.startswith("demo.") or (f.startswith("demo") and not f.endswith("_how.txt"))]
    m = re.search(r"WORKTREE/(\S+\.(?:rs|sh))", t)
    cmd = None
    for line in t.splitlines():
        if "cargo test" in line or line.strip().startswith(("bash ", "sh ", "./")):
            cmd = line.strip()
            for start in ("cd ", "cargo ", "bash ", "sh "):
                if start in cmd: cmd = cmd[cmd.index(start):]; break
            cmd = cmd.strip("`")
            break
    return demos, (m.group(1) if m else None), cmd
def confirm(pid, v):
    wt, out = f"/tmp/seed/{pid}", f"/tmp/seed/{pid}.out/{v}"
    demos, dest, cmd = how(out)
    res = {"id": pid, "v": v, "dest": dest, "cmd": cmd}
    if not dest or not cmd: res["error"] = "could not parse demo_how.txt"; return res
    cmd = cmd.replace("WORKTREE", wt).replace("OUTDIR", f"/tmp/seed/{pid}.out")
    if cmd.startswith("cd "): pass
    sh("git checkout -- . && git clean -fdq -e target", cwd=wt)
    demo = os.path.join(out, [d for d in demos if d.endswith(os.path.splitext(dest)[1])][0])
    def place(): os.makedirs(os.path.dirname(os.path.join(wt, dest)), exist_ok=True); shutil.copy(demo, os.path.join(wt, dest))
    # without the change: demo passes
    place(); rc0, o0 = sh(cmd, cwd=wt); res["demo_without_change"] = rc0
    # with the change: suite passes (demo removed), demo fails
    os.remove(os.path.join(wt, dest))
    rc, o = sh(f"git apply {out}/patch.diff", cwd=wt); res["apply"] = rc
    rc1, o1 = sh("cargo test --workspace --no-fail-fast --offline 2>&1 | grep -E '^test result|FAILED|error(\\[|:)' ", cwd=wt); res["suite_with_change"] = o1.strip().splitlines()
    place(); rc2, o2 = sh(cmd, cwd=wt); res["demo_with_change"] = rc2; res["demo_fail_excerpt"] = "\n".join([l for l in o2.splitlines() if "panicked" in l or "FAILED" in l or "failed" in l][:4])
    sh("git checkout -- . && git clean -fdq -e target", cwd=wt)
    passed = sum(int(x) for x in re.findall(r"(\d+) passed", "\n".join(res["suite_with_change"])))
    res["suite_passed"] = passed
    res["confirmed"] = (rc0 == 0 and rc == 0 and rc2 != 0 and passed == 33 and "FAILED" not in o1 and "error" not in o1)
    return res
def try_(pid, v, checks):
    out = f"/tmp/seed/{pid}.out/{v}" if not os.path.isdir(f"/verif/seeded/{pid}{v}") or os.path.isdir(f"/tmp/seed/{pid}.out/{v}") else f"/verif/seeded/{pid}{v}"
    assert sh("git status --porcelain", cwd="/repo")[1].strip() == "", "/repo is not clean"
    rc, o = sh(f"git apply {out}/patch.diff", cwd="/repo"); res = {"id": pid, "v": v, "apply": rc, "checks": {}}
    try:
        if rc == 0:
            for c in checks:
                t = time.time(); rc, o = sh(f"./check {c} quick", cwd=os.environ.get("VERIF_DIR", "/verif"), timeout=3000)
                viol = [l for l in o.splitlines() if l.startswith("VIOLATION")]
                msg = [l for l in o.splitlines() if "violation:" in l][:2]
                res["checks"][c] = {"exit": rc, "violation": bool(viol), "wall": round(time.time() - t, 1), "msg": msg}
    finally:
        sh("git checkout -- .", cwd="/repo")
        # drop replay files written while the change was applied
        sh("git clean -fdq replays && git checkout -- evidence", cwd=os.environ.get("VERIF_DIR", "/verif"))
    return res
if __name__ == "__main__":
    mode, pid, v = sys.argv[1], sys.argv[2], sys.argv[3]
    r = confirm(pid, v) if mode == "confirm" else try_(pid, v, sys.argv[4:]) if mode == "try" else None
    if mode == "keep":
        name = sys.argv[4] if len(sys.argv) > 4 else f"{pid}{v}"; d = f"/verif/seeded/{name}"; os.makedirs(d, exist_ok=True)
        for f in os.listdir(f"/tmp/seed/{pid}.out/{v}"): shutil.copy(os.path.join(f"/tmp/seed/{pid}.out/{v}", f), d)
        print("kept", d); sys.exit(0)
    r["mode"] = mode
    open("/tmp/seed/results.jsonl", "a").write(json.dumps(r) + "\n")
    print(json.dumps(r, indent=1))
