#!/usr/bin/env python3
"""Oracle audit: the independent specification (kspec) against OpenSSL 3 on random inputs.
Reads the JSON lines printed by `kverif tool:oracle-dump <n> <seed>` (inputs and kspec outputs) and
recomputes every value with hashlib / hmac / libcrypto (ctypes). Exit 0 = all agree, 1 = disagreement
(the oracle, not kestrel, is wrong), 2 = OpenSSL unavailable.
usage: /verif/target/release/kverif tool:oracle-dump 400 1 | python3 tools/oracle_audit.py"""
import sys, json, hashlib, hmac, ctypes, ctypes.util

def load_libcrypto():
    for name in (ctypes.util.find_library("crypto"), "libcrypto.so.3", "libcrypto.so.1.1"):
        if not name: continue
        try: return ctypes.CDLL(name)
        except OSError: pass
    return None
lib = load_libcrypto()
if lib is None: print("oracle_audit: libcrypto not found"); sys.exit(2)
vp = ctypes.c_void_p
for f, res, args in [("EVP_CIPHER_CTX_new", vp, []), ("EVP_chacha20_poly1305", vp, []), ("EVP_CIPHER_CTX_free", None, [vp]),
                     ("EVP_EncryptInit_ex", ctypes.c_int, [vp, vp, vp, ctypes.c_char_p, ctypes.c_char_p]), ("EVP_DecryptInit_ex", ctypes.c_int, [vp, vp, vp, ctypes.c_char_p, ctypes.c_char_p]),
                     ("EVP_CIPHER_CTX_ctrl", ctypes.c_int, [vp, ctypes.c_int, ctypes.c_int, vp]),
                     ("EVP_EncryptUpdate", ctypes.c_int, [vp, ctypes.c_char_p, ctypes.POINTER(ctypes.c_int), ctypes.c_char_p, ctypes.c_int]), ("EVP_DecryptUpdate", ctypes.c_int, [vp, ctypes.c_char_p, ctypes.POINTER(ctypes.c_int), ctypes.c_char_p, ctypes.c_int]),
                     ("EVP_EncryptFinal_ex", ctypes.c_int, [vp, ctypes.c_char_p, ctypes.POINTER(ctypes.c_int)]), ("EVP_DecryptFinal_ex", ctypes.c_int, [vp, ctypes.c_char_p, ctypes.POINTER(ctypes.c_int)]),
                     ("EVP_PKEY_new_raw_private_key", vp, [ctypes.c_int, vp, ctypes.c_char_p, ctypes.c_size_t]), ("EVP_PKEY_new_raw_public_key", vp, [ctypes.c_int, vp, ctypes.c_char_p, ctypes.c_size_t]),
                     ("EVP_PKEY_CTX_new", vp, [vp, vp]), ("EVP_PKEY_derive_init", ctypes.c_int, [vp]), ("EVP_PKEY_derive_set_peer", ctypes.c_int, [vp, vp]),
                     ("EVP_PKEY_derive", ctypes.c_int, [vp, ctypes.c_char_p, ctypes.POINTER(ctypes.c_size_t)]), ("EVP_PKEY_get_raw_public_key", ctypes.c_int, [vp, ctypes.c_char_p, ctypes.POINTER(ctypes.c_size_t)]),
                     ("EVP_PKEY_free", None, [vp]), ("EVP_PKEY_CTX_free", None, [vp])]:
    fn = getattr(lib, f); fn.restype = res; fn.argtypes = args
SET_IVLEN, GET_TAG, SET_TAG, NID_X25519 = 0x9, 0x10, 0x11, 1034

def aead_seal(key, nonce, aad, pt):
    c = lib.EVP_CIPHER_CTX_new(); n = ctypes.c_int(0)
    lib.EVP_EncryptInit_ex(c, lib.EVP_chacha20_poly1305(), None, None, None); lib.EVP_CIPHER_CTX_ctrl(c, SET_IVLEN, 12, None); lib.EVP_EncryptInit_ex(c, None, None, key, nonce)
    if aad: lib.EVP_EncryptUpdate(c, None, ctypes.byref(n), aad, len(aad))
    out = ctypes.create_string_buffer(len(pt) + 16)
    if pt: lib.EVP_EncryptUpdate(c, out, ctypes.byref(n), pt, len(pt))
    lib.EVP_EncryptFinal_ex(c, out, ctypes.byref(n))
    tag = ctypes.create_string_buffer(16); lib.EVP_CIPHER_CTX_ctrl(c, GET_TAG, 16, tag); lib.EVP_CIPHER_CTX_free(c)
    return out.raw[:len(pt)] + tag.raw
def aead_open(key, nonce, aad, ct):
    if len(ct) < 16: return None
    body, tag = ct[:-16], ct[-16:]
    c = lib.EVP_CIPHER_CTX_new(); n = ctypes.c_int(0)
    lib.EVP_DecryptInit_ex(c, lib.EVP_chacha20_poly1305(), None, None, None); lib.EVP_CIPHER_CTX_ctrl(c, SET_IVLEN, 12, None); lib.EVP_DecryptInit_ex(c, None, None, key, nonce)
    if aad: lib.EVP_DecryptUpdate(c, None, ctypes.byref(n), aad, len(aad))
    out = ctypes.create_string_buffer(len(body) + 16)
    if body: lib.EVP_DecryptUpdate(c, out, ctypes.byref(n), body, len(body))
    lib.EVP_CIPHER_CTX_ctrl(c, SET_TAG, 16, ctypes.create_string_buffer(tag, 16))
    ok = lib.EVP_DecryptFinal_ex(c, out, ctypes.byref(n)); lib.EVP_CIPHER_CTX_free(c)
    return out.raw[:len(body)] if ok > 0 else None
def x25519(k, u):
    sk = lib.EVP_PKEY_new_raw_private_key(NID_X25519, None, k, 32); pk = lib.EVP_PKEY_new_raw_public_key(NID_X25519, None, u, 32)
    ctx = lib.EVP_PKEY_CTX_new(sk, None); lib.EVP_PKEY_derive_init(ctx); lib.EVP_PKEY_derive_set_peer(ctx, pk)
    out = ctypes.create_string_buffer(32); n = ctypes.c_size_t(32); ok = lib.EVP_PKEY_derive(ctx, out, ctypes.byref(n))
    lib.EVP_PKEY_CTX_free(ctx); lib.EVP_PKEY_free(sk); lib.EVP_PKEY_free(pk)
    return out.raw if ok > 0 else bytes(32)   # OpenSSL refuses the all-zero result
def x25519_pub(k):
    sk = lib.EVP_PKEY_new_raw_private_key(NID_X25519, None, k, 32); out = ctypes.create_string_buffer(32); n = ctypes.c_size_t(32)
    lib.EVP_PKEY_get_raw_public_key(sk, out, ctypes.byref(n)); lib.EVP_PKEY_free(sk); return out.raw
def hkdf(salt, ikm, info, n):
    prk = hmac.new(salt if salt else bytes(32), ikm, hashlib.sha256).digest(); t = b""; okm = b""; i = 1
    while len(okm) < n: t = hmac.new(prk, t + info + bytes([i]), hashlib.sha256).digest(); okm += t; i += 1
    return okm[:n]

h = bytes.fromhex; n_ok = 0; bad = []
for line in sys.stdin:
    line = line.strip()
    if not line.startswith("{"): continue
    r = json.loads(line); i = r["in"]; p = r["prim"]
    if p == "sha256": want = hashlib.sha256(h(i["data"])).digest()
    elif p == "hmac": want = hmac.new(h(i["key"]), h(i["data"]), hashlib.sha256).digest()
    elif p == "hkdf": want = hkdf(h(i["salt"]), h(i["ikm"]), h(i["info"]), i["len"])
    elif p == "pbkdf2": want = hashlib.pbkdf2_hmac("sha256", h(i["pw"]), h(i["salt"]), i["iters"], i["len"])
    elif p == "scrypt": want = hashlib.scrypt(h(i["pw"]), salt=h(i["salt"]), n=i["n"], r=i["r"], p=i["p"], dklen=i["len"], maxmem=256 << 20)
    elif p == "aead_seal": want = aead_seal(h(i["key"]), h(i["nonce"]), h(i["aad"]), h(i["pt"]))
    elif p == "aead_open": x = aead_open(h(i["key"]), h(i["nonce"]), h(i["aad"]), h(i["ct"])); want = b"\x01" + x if x is not None else b"\x00"
    elif p == "x25519": want = x25519(h(i["k"]), h(i["u"]))
    elif p == "x25519_base": want = x25519_pub(h(i["k"]))
    else: continue
    if want.hex() == r["out"]: n_ok += 1
    else: bad.append((p, i, r["out"], want.hex()))
print(f"oracle_audit: {n_ok} values agree with OpenSSL, {len(bad)} disagree")
for b in bad[:5]: print("  DISAGREE", b)
sys.exit(1 if bad else 0)
