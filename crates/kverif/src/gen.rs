//! Shared generators: plaintexts, keys, lengths, I/O schedules, passwords.
use crate::sio::{FKind, Fault, RSched, Side, WSched, FKINDS};
use proptest::prelude::*;
use serde::{Deserialize, Serialize};

pub const CS: usize = 65536;

/// Plaintext given as (length, seed); content is a keyed stream so that every position is distinguishable.
#[derive(Clone, Debug, PartialEq, Eq, Serialize, Deserialize, Hash)]
pub struct Plain { pub len: usize, pub seed: u64 }
fn splitmix(mut z: u64) -> u64 { z = z.wrapping_add(0x9E3779B97F4A7C15); z = (z ^ (z >> 30)).wrapping_mul(0xBF58476D1CE4E5B9); z = (z ^ (z >> 27)).wrapping_mul(0x94D049BB133111EB); z ^ (z >> 31) }
/// Seeds 1..=4 modulo 64 stand for data that is itself kestrel output (re-encrypting a file for somebody else,
/// wrapping a password file in a key envelope): a whole small key-mode file, a whole small password-mode file, or
/// just the 4-byte format magic, followed by the keyed stream.
static NESTED_KEY: &[u8] = include_bytes!("../../../golden/key-02.ktl");
static NESTED_PASS: &[u8] = include_bytes!("../../../golden/pass-02.ktl");
pub fn nested_prefix(seed: u64) -> &'static [u8] { match seed % 64 { 1 => NESTED_KEY, 2 => NESTED_PASS, 3 => &NESTED_KEY[..4], 4 => &NESTED_PASS[..4], _ => &[] } }
pub fn fill_at(seed: u64, off: u64, out: &mut [u8]) {
    if seed == 0 { out.fill(0); return; } // seed 0 stands for all-zero content
    fill_stream(seed, off, out);
    let pre = nested_prefix(seed);
    if (off as usize) < pre.len() { let n = (pre.len() - off as usize).min(out.len()); out[..n].copy_from_slice(&pre[off as usize..off as usize + n]); }
}
fn fill_stream(seed: u64, off: u64, out: &mut [u8]) {
    let mut i = 0usize;
    while i < out.len() {
        let pos = off + i as u64; let w = splitmix(seed ^ (pos / 8).wrapping_mul(0xD1B54A32D192ED03)).to_le_bytes();
        let s = (pos % 8) as usize; let n = (8 - s).min(out.len() - i);
        out[i..i + n].copy_from_slice(&w[s..s + n]); i += n;
    }
}
impl Plain { pub fn bytes(&self) -> Vec<u8> { let mut v = vec![0u8; self.len]; fill_at(self.seed, 0, &mut v); v } }
pub fn bytes_from(seed: u64, len: usize) -> Vec<u8> { Plain { len, seed }.bytes() }
pub fn key32(seed: u64, tag: &str) -> [u8; 32] { kspec::sha256(format!("k|{}|{}", tag, seed).as_bytes()) }

/// Lengths biased to chunk boundaries; `max` bounds the log-uniform tail.
pub fn len_strategy(max: usize) -> BoxedStrategy<usize> {
    let boundary = (1usize..=4, 0usize..3).prop_map(|(k, d)| k * CS + d - 1);
    prop_oneof![
        2 => 0usize..3,
        3 => boundary.prop_map(move |x| x.min(max)),
        5 => 0usize..600,
        2 => (0u32..1000, 8u32..=20).prop_map(move |(m, e)| ((((1u64 << e) as f64) * (1.0 + m as f64 / 1000.0)) as usize).min(max)),
    ].boxed()
}
pub fn plain_strategy(max: usize) -> impl Strategy<Value = Plain> { (len_strategy(max), any::<u64>()).prop_map(|(len, seed)| Plain { len, seed }) }
pub fn small_plain(max: usize) -> impl Strategy<Value = Plain> { (0..=max, any::<u64>()).prop_map(|(len, seed)| Plain { len, seed }) }

fn sizes_near_chunk() -> impl Strategy<Value = usize> { prop_oneof![Just(CS - 1), Just(CS), Just(CS + 1), Just(1usize), Just(15), Just(16), Just(17), 1usize..200_000] }
pub fn rsched_strategy() -> BoxedStrategy<RSched> {
    prop_oneof![
        3 => Just(RSched::full()),
        2 => (1usize..8).prop_map(RSched::dribble),
        3 => (proptest::collection::vec(1usize..70, 0..8), prop_oneof![Just(0usize), 1usize..100]).prop_map(|(gives, then)| RSched { gives, then }),
        2 => (proptest::collection::vec(sizes_near_chunk(), 0..6), prop_oneof![Just(0usize), Just(CS - 1), Just(4096usize), Just(CS / 2 + 1)]).prop_map(|(gives, then)| RSched { gives, then }),
    ].boxed()
}
/// Read schedules that keep the number of read calls small for large inputs (for 64 KiB-chunk cases).
pub fn rsched_coarse() -> BoxedStrategy<RSched> {
    prop_oneof![
        3 => Just(RSched::full()),
        3 => (proptest::collection::vec(sizes_near_chunk(), 0..6), prop_oneof![Just(0usize), Just(CS - 1), Just(40_000usize), Just(CS / 2 + 1)]).prop_map(|(gives, then)| RSched { gives, then }),
    ].boxed()
}
pub fn wsched_strategy() -> BoxedStrategy<WSched> {
    prop_oneof![
        3 => Just(WSched::all()),
        2 => (1usize..8).prop_map(WSched::dribble),
        3 => (proptest::collection::vec(1usize..70, 0..8), prop_oneof![Just(0usize), 1usize..100]).prop_map(|(accepts, then)| WSched { accepts, then }),
        2 => (proptest::collection::vec(sizes_near_chunk(), 0..6), prop_oneof![Just(0usize), Just(CS - 1), Just(4096usize)]).prop_map(|(accepts, then)| WSched { accepts, then }),
    ].boxed()
}
pub fn wsched_coarse() -> BoxedStrategy<WSched> {
    prop_oneof![
        3 => Just(WSched::all()),
        3 => (proptest::collection::vec(sizes_near_chunk(), 0..6), prop_oneof![Just(0usize), Just(CS - 1), Just(30_000usize)]).prop_map(|(accepts, then)| WSched { accepts, then }),
    ].boxed()
}
/// Schedules appropriate for a payload of `len` bytes: fine-grained ones only when the data is small.
pub fn rsched_for(len: usize) -> BoxedStrategy<RSched> { if len <= 4096 { rsched_strategy() } else { rsched_coarse() } }
pub fn wsched_for(len: usize) -> BoxedStrategy<WSched> { if len <= 4096 { wsched_strategy() } else { wsched_coarse() } }

pub fn fkind_strategy() -> impl Strategy<Value = FKind> { (0usize..FKINDS.len()).prop_map(|i| FKINDS[i]) }
pub fn fault_strategy(max_k: usize) -> impl Strategy<Value = Fault> {
    (prop_oneof![Just(Side::Read), Just(Side::Write), Just(Side::Flush)], prop_oneof![2 => 1usize..=6, 2 => 1usize..=max_k.clamp(1, 40), 1 => 1usize..=max_k.max(1)], fkind_strategy()).prop_map(|(side, k, kind)| Fault { side, k, kind })
}

/// Passwords as byte strings: empty, ASCII, multi-byte UTF-8, raw bytes, around the HMAC block size, long.
pub fn password_strategy() -> BoxedStrategy<Vec<u8>> {
    prop_oneof![
        1 => Just(Vec::new()),
        3 => "[ -~]{1,20}".prop_map(|s| s.into_bytes()),
        2 => "\\PC{1,12}".prop_map(|s| s.into_bytes()),
        2 => proptest::collection::vec(any::<u8>(), 1..40),
        2 => (62usize..68, any::<u64>()).prop_map(|(n, s)| bytes_from(s, n)),
        1 => (65usize..300, any::<u64>()).prop_map(|(n, s)| bytes_from(s, n)),
        // whitespace at the edges (what a trimming bug would eat)
        2 => "[ -~]{0,12}[ \t\n\r]".prop_map(|s| s.into_bytes()),
        1 => "[ \t][ -~]{1,10}".prop_map(|s| s.into_bytes()),
        // exactly one HMAC block, and far beyond any sensible length (a silent cap would make long passwords collide)
        1 => any::<u64>().prop_map(|s| bytes_from(s | 1, 64)),
        1 => (4090usize..6000, any::<u64>()).prop_map(|(n, s)| bytes_from(s | 1, n)),
    ].boxed()
}
/// UTF-8 passwords without NUL (usable in environment variables).
pub fn env_password_strategy() -> BoxedStrategy<String> {
    prop_oneof![
        1 => Just(String::new()),
        3 => "[!-~]{1,20}",
        2 => "[\\PC&&[^\\x00]]{1,12}",
        1 => "[a-zA-Z0-9 ]{62,67}",
        1 => "[a-z]{65,200}",
        1 => "[!-~]{1,10}[ \t]",
        1 => "[ \u{3000}\t][!-~]{1,10}",
        1 => "[!-~]{1,6} ",
        1 => "[!-~]{1,8}\r",
        // passwords that look like indirections to files which exist where the tool runs, or like other conventions
        1 => "(@|file:|<|\\$)(p\\.bin|k\\.txt|keys\\.txt|m\\.txt|c\\.ktl|/etc/hostname|/dev/null)",
    ].boxed()
}
/// The 64-byte HMAC key block of a password: passwords with equal blocks are the same scrypt/PBKDF2 key (RFC 2104).
pub fn hmac_equiv(a: &[u8], b: &[u8]) -> bool { kspec::hmac_key_block(a) == kspec::hmac_key_block(b) }

/// Wrong-password variants of `w`; (variant, label). HMAC-equivalent spellings are labelled "equiv:*".
pub fn wrong_passwords(w: &[u8], sel: u64) -> Vec<(Vec<u8>, &'static str)> {
    let mut v: Vec<(Vec<u8>, &'static str)> = Vec::new();
    if !w.is_empty() {
        let i = (sel as usize) % w.len(); let bit = 1u8 << ((sel >> 8) % 8);
        let mut x = w.to_vec(); x[i] ^= bit; v.push((x, "bitflip"));
        let mut x = w.to_vec(); let l = x.len() - 1; x[l] = x[l].wrapping_add(1); v.push((x, "lastbyte"));
        v.push((w[..w.len() - 1].to_vec(), "prefix"));
        let mut x = w.to_vec(); for b in x.iter_mut() { if b.is_ascii_alphabetic() { *b ^= 0x20; } } if x != w { v.push((x, "case")); }
        v.push((Vec::new(), "empty"));
    } else { v.push((b"x".to_vec(), "nonempty")); }
    let mut x = w.to_vec(); x.push(b'a'); v.push((x, "append"));
    let mut x = w.to_vec(); x.push(b' '); v.push((x, "append-space"));
    let mut x = w.to_vec(); x.push(b'\n'); v.push((x, "append-newline"));
    let mut x = w.to_vec(); x.push(b'\r'); v.push((x, "append-cr"));
    if w.last().map(|c| c.is_ascii_whitespace()).unwrap_or(false) { let mut x = w.to_vec(); while x.last().map(|c| c.is_ascii_whitespace()).unwrap_or(false) { x.pop(); } v.push((x, "trimmed")); }
    if w.first().map(|c| c.is_ascii_whitespace()).unwrap_or(false) { v.push((w[1..].to_vec(), "left-trimmed")); }
    v.push((b"an unrelated password".to_vec(), "unrelated"));
    // same bytes, length differing by 256 or 65536: what a length carried in 8 or 16 bits cannot tell apart
    let mut x = w.to_vec(); x.extend(std::iter::repeat(b'a').take(256)); v.push((x, "append-256"));
    let mut x = w.to_vec(); x.extend(bytes_from(sel | 1, 256)); v.push((x, "append-256-random"));
    let mut x = w.to_vec(); x.extend(std::iter::repeat(0x5au8).take(65536)); v.push((x, "append-65536"));
    if w.len() > 256 { v.push((w[..w.len() - 256].to_vec(), "prefix-256")); }
    let mut x = w.to_vec(); x.push(0); v.push((x, "equiv:nul"));
    // SHA-256(w) is the same HMAC key as w exactly when |w| > 64 (callers classify with hmac_equiv); for |w| <= 64 it is simply another password
    v.push((kspec::sha256(w).to_vec(), if w.len() > 64 { "equiv:digest" } else { "digest" }));
    v
}

/// Low-order / zero-forcing u-coordinates of Curve25519 (every clamped multiple is zero), in all spellings below 2^256.
pub fn low_order_points() -> Vec<[u8; 32]> {
    let base: [&str; 7] = [
        "0000000000000000000000000000000000000000000000000000000000000000",
        "0100000000000000000000000000000000000000000000000000000000000000",
        "e0eb7a7c3b41b8ae1656e3faf19fc46ada098deb9c32b1fd866205165f49b800",
        "5f9c95bca3508c24b1d0b1559c83ef5b04445cc4581c8e86d8224eddd09f1157",
        "ecffffffffffffffffffffffffffffffffffffffffffffffffffffffffffff7f",
        "edffffffffffffffffffffffffffffffffffffffffffffffffffffffffffff7f",
        "eeffffffffffffffffffffffffffffffffffffffffffffffffffffffffffff7f",
    ];
    let mut v = Vec::new();
    for h in base { let b: [u8; 32] = kspec::unhex(h).try_into().unwrap(); v.push(b); let mut c = b; c[31] |= 0x80; v.push(c); }
    v
}
