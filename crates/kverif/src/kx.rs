//! Thin drivers around the kestrel public API (and the three hooks) over scripted I/O.
use crate::sio::{pair, Fault, RSched, Shared, WSched};
use kestrel_crypto as kc;
use kc::errors::{DecryptError, EncryptError};
use kc::{AsymFileFormat, PassFileFormat, PayloadKey, PrivateKey, PublicKey};
use std::io::ErrorKind;
use std::rc::Rc;

#[derive(Clone, Debug, PartialEq)]
pub enum EncRes { Ok, UnexpectedData, IORead(ErrorKind), IOWrite(ErrorKind), Other(String) }
#[derive(Clone, Debug, PartialEq)]
pub enum DecRes { Ok(Option<[u8; 32]>), ChunkLen, ChaPoly, UnexpectedData, IORead(ErrorKind), IOWrite(ErrorKind), Other(String) }
impl DecRes { pub fn is_ok(&self) -> bool { matches!(self, DecRes::Ok(_)) } }
impl EncRes { pub fn is_ok(&self) -> bool { matches!(self, EncRes::Ok) } }

fn enc_res(r: Result<(), EncryptError>) -> EncRes {
    match r { Ok(()) => EncRes::Ok, Err(EncryptError::UnexpectedData) => EncRes::UnexpectedData, Err(EncryptError::IORead(e)) => EncRes::IORead(e.kind()), Err(EncryptError::IOWrite(e)) => EncRes::IOWrite(e.kind()), Err(EncryptError::Other(s)) => EncRes::Other(s) }
}
fn dec_err(e: DecryptError) -> DecRes {
    match e { DecryptError::ChunkLen => DecRes::ChunkLen, DecryptError::ChaPolyDecrypt => DecRes::ChaPoly, DecryptError::UnexpectedData => DecRes::UnexpectedData, DecryptError::IORead(e) => DecRes::IORead(e.kind()), DecryptError::IOWrite(e) => DecRes::IOWrite(e.kind()), DecryptError::Other(s) => DecRes::Other(s) }
}
pub fn sk(b: &[u8; 32]) -> PrivateKey { PrivateKey::try_from(&b[..]).unwrap() }
pub fn pk(b: &[u8; 32]) -> PublicKey { PublicKey::try_from(&b[..]).unwrap() }

#[derive(Clone, Debug)]
pub struct Ident { pub sk: [u8; 32], pub pk: [u8; 32] }
pub fn ident(seed: u64, tag: &str) -> Ident { let sk = crate::gen::key32(seed, tag); Ident { sk, pk: kspec::x25519_base(&sk) } }

#[allow(clippy::too_many_arguments)]
pub fn key_encrypt(plain: &[u8], rs: &RSched, ws: &WSched, fault: Option<Fault>, s_sk: &[u8; 32], s_pub_claimed: &[u8; 32], r_pub: &[u8; 32], e: Option<&[u8; 32]>, payload: Option<&[u8; 32]>) -> (EncRes, Rc<Shared>) {
    let (mut r, mut w, sh) = pair(plain, rs, ws, fault);
    let (esk, epk) = match e { Some(e) => (Some(sk(e)), Some(pk(&kspec::x25519_base(e)))), None => (None, None) };
    let pl = payload.map(|p| PayloadKey::new(p));
    let res = kc::encrypt::key_encrypt(&mut r, &mut w, &sk(s_sk), &pk(s_pub_claimed), &pk(r_pub), esk.as_ref(), epk.as_ref(), pl.as_ref(), AsymFileFormat::V1);
    (enc_res(res), sh)
}
/// The two ephemeral arguments given independently (the API takes the private and the public half as separate options;
/// with either one missing the implementation draws a fresh pair).
#[allow(clippy::too_many_arguments)]
pub fn key_encrypt_halves(plain: &[u8], rs: &RSched, ws: &WSched, s_sk: &[u8; 32], s_pub: &[u8; 32], r_pub: &[u8; 32], e_sk: Option<&[u8; 32]>, e_pk: Option<&[u8; 32]>, payload: Option<&[u8; 32]>) -> (EncRes, Rc<Shared>) {
    let (mut r, mut w, sh) = pair(plain, rs, ws, None);
    let (esk, epk) = (e_sk.map(sk), e_pk.map(pk)); let pl = payload.map(|p| PayloadKey::new(p));
    let res = kc::encrypt::key_encrypt(&mut r, &mut w, &sk(s_sk), &pk(s_pub), &pk(r_pub), esk.as_ref(), epk.as_ref(), pl.as_ref(), AsymFileFormat::V1);
    (enc_res(res), sh)
}
pub fn key_decrypt(ct: &[u8], rs: &RSched, ws: &WSched, fault: Option<Fault>, r_sk: &[u8; 32], r_pub: &[u8; 32]) -> (DecRes, Rc<Shared>) {
    let (mut r, mut w, sh) = pair(ct, rs, ws, fault);
    let res = kc::decrypt::key_decrypt(&mut r, &mut w, &sk(r_sk), &pk(r_pub), AsymFileFormat::V1);
    (match res { Ok(p) => DecRes::Ok(Some(p.as_bytes().try_into().unwrap())), Err(e) => dec_err(e) }, sh)
}
pub fn pass_encrypt(plain: &[u8], rs: &RSched, ws: &WSched, fault: Option<Fault>, pw: &[u8], salt: [u8; 32]) -> (EncRes, Rc<Shared>) {
    let (mut r, mut w, sh) = pair(plain, rs, ws, fault);
    (enc_res(kc::encrypt::pass_encrypt(&mut r, &mut w, pw, salt, PassFileFormat::V1)), sh)
}
pub fn pass_decrypt(ct: &[u8], rs: &RSched, ws: &WSched, fault: Option<Fault>, pw: &[u8]) -> (DecRes, Rc<Shared>) {
    let (mut r, mut w, sh) = pair(ct, rs, ws, fault);
    (match kc::decrypt::pass_decrypt(&mut r, &mut w, pw, PassFileFormat::V1) { Ok(()) => DecRes::Ok(None), Err(e) => dec_err(e) }, sh)
}
pub fn enc_chunks(plain: &[u8], rs: &RSched, ws: &WSched, fault: Option<Fault>, key: &[u8; 32], aad: &[u8], cs: u32) -> (EncRes, Rc<Shared>) {
    let (mut r, mut w, sh) = pair(plain, rs, ws, fault);
    (enc_res(kc::encrypt::verif_encrypt_chunks(&mut r, &mut w, key, aad, cs)), sh)
}
pub fn dec_chunks(ct: &[u8], rs: &RSched, ws: &WSched, fault: Option<Fault>, key: &[u8; 32], aad: &[u8], cs: u32) -> (DecRes, Rc<Shared>) {
    let (mut r, mut w, sh) = pair(ct, rs, ws, fault);
    (match kc::decrypt::verif_decrypt_chunks(&mut r, &mut w, key, aad, cs) { Ok(()) => DecRes::Ok(None), Err(e) => dec_err(e) }, sh)
}
/// Plain in-memory helpers (no scripted I/O).
pub fn key_encrypt_simple(plain: &[u8], s: &Ident, r_pub: &[u8; 32], e: Option<&[u8; 32]>, payload: Option<&[u8; 32]>) -> Result<Vec<u8>, String> {
    let (res, sh) = key_encrypt(plain, &RSched::full(), &WSched::all(), None, &s.sk, &s.pk, r_pub, e, payload);
    if res.is_ok() { Ok(sh.sink.take()) } else { Err(format!("{:?}", res)) }
}
/// Real encryptor with a chosen chunking (each read returns exactly the next length).
pub fn key_encrypt_chunked(plain: &[u8], lens: &[usize], s: &Ident, r_pub: &[u8; 32], e: &[u8; 32], payload: &[u8; 32]) -> Result<Vec<u8>, String> {
    let (res, sh) = key_encrypt(plain, &RSched { gives: lens.to_vec(), then: 0 }, &WSched::all(), None, &s.sk, &s.pk, r_pub, Some(e), Some(payload));
    if res.is_ok() { Ok(sh.sink.take()) } else { Err(format!("{:?}", res)) }
}
pub fn enc_chunks_chunked(plain: &[u8], lens: &[usize], key: &[u8; 32], aad: &[u8], cs: u32) -> Result<Vec<u8>, String> {
    let (res, sh) = enc_chunks(plain, &RSched { gives: lens.to_vec(), then: 0 }, &WSched::all(), None, key, aad, cs);
    if res.is_ok() { Ok(sh.sink.take()) } else { Err(format!("{:?}", res)) }
}
