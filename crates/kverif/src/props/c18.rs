//! C18 — scrypt equals RFC 7914 for all parameters, in the library and across the C ABI.
use crate::core::{ok, set_rule, CheckResult, Ctx};
use crate::ensure;
use crate::gen;
use kestrel_crypto as kc;
use proptest::prelude::*;
use serde::{Deserialize, Serialize};
use std::io::Write;

#[derive(Clone, Debug, Serialize, Deserialize)]
pub struct Case { pub seed: u64, pub pw_len: usize, pub salt_len: usize, pub log_n: u32, pub r: u32, pub p: u32, pub dk_len: usize }
impl Case {
    fn pw(&self) -> Vec<u8> { gen::bytes_from(self.seed, self.pw_len) }
    fn salt(&self) -> Vec<u8> { gen::bytes_from(self.seed ^ 0x5a17, self.salt_len) }
    fn n(&self) -> u32 { 1 << self.log_n }
    fn line(&self) -> String { let h = |b: &[u8]| if b.is_empty() { "-".to_string() } else { kspec::hex(b) }; format!("{} {} {} {} {} {}\n", h(&self.pw()), h(&self.salt()), self.n(), self.r, self.p, self.dk_len) }
}
pub fn strat(max_mem: u64) -> impl Strategy<Value = Case> {
    (any::<u64>(), prop_oneof![3 => 0usize..40, 2 => 60usize..70, 1 => 0usize..200], prop_oneof![3 => 0usize..40, 1 => 0usize..200], prop_oneof![5 => 1u32..6, 2 => 1u32..11, 1 => 1u32..16], prop_oneof![12 => 1u32..4, 8 => 1u32..17, 1 => 17u32..140, 1 => 120u32..300, 1 => prop_oneof![Just(127u32), Just(128), Just(129), Just(255), Just(256), Just(257)]], prop_oneof![12 => 1u32..4, 4 => 1u32..9, 1 => 9u32..70], prop_oneof![8 => prop_oneof![Just(1usize), Just(31), Just(32), Just(33), Just(63), Just(64), Just(65)], 8 => 1usize..201, 1 => prop_oneof![Just(8160usize), Just(8161), Just(8192), 8000usize..20000]])
        .prop_map(move |(seed, pw_len, salt_len, log_n, r, p, dk_len)| { let mut log_n = log_n; while (128u64 * (1u64 << log_n) * r as u64 > max_mem || (1u64 << log_n) * r as u64 * p as u64 > (1 << 17)) && log_n > 1 { log_n -= 1; } Case { seed, pw_len, salt_len, log_n, r, p, dk_len } })
}

pub fn check(c: &Case) -> CheckResult {
    let (pw, salt) = (c.pw(), c.salt());
    let want = kspec::scrypt(&pw, &salt, c.n() as usize, c.r as usize, c.p as usize, c.dk_len);
    let got = kc::scrypt(&pw, &salt, c.n(), c.r, c.p, c.dk_len);
    ensure!(got.len() == c.dk_len, "scrypt returned {} bytes, {} requested", got.len(), c.dk_len);
    ensure!(got == want, "kestrel_crypto::scrypt differs from RFC 7914 for N={} r={} p={} dkLen={} |pw|={} |salt|={}", c.n(), c.r, c.p, c.dk_len, c.pw_len, c.salt_len);
    // the exported C function, called through its extern "C" signature, into a buffer framed by guard bytes
    let mut buf = vec![0xA5u8; c.dk_len + 128]; let (pw2, salt2) = (pw.clone(), salt.clone());
    unsafe { crate::ffi::scrypt(pw2.as_ptr(), pw2.len(), salt2.as_ptr(), salt2.len(), c.n(), c.r, c.p, buf.as_mut_ptr().add(64), c.dk_len); }
    ensure!(buf[64..64 + c.dk_len] == want[..], "exported C scrypt wrote a value different from RFC 7914 (N={} r={} p={} dkLen={})", c.n(), c.r, c.p, c.dk_len);
    ensure!(buf[..64].iter().all(|&b| b == 0xA5) && buf[64 + c.dk_len..].iter().all(|&b| b == 0xA5), "exported C scrypt wrote outside the {} requested bytes", c.dk_len);
    ensure!(pw2 == pw && salt2 == salt, "exported C scrypt modified its input buffers");
    // the header declares plain (non-restrict) pointers: a C caller may derive the key in place, over the password buffer
    if c.pw_len >= c.dk_len && c.pw_len > 0 {
        let mut inplace = pw.clone(); let p = inplace.as_mut_ptr();
        unsafe { crate::ffi::scrypt(p as *const u8, inplace.len(), salt.as_ptr(), salt.len(), c.n(), c.r, c.p, p, c.dk_len); }
        ensure!(inplace[..c.dk_len] == want[..], "exported C scrypt called with the output buffer over the password buffer did not write the RFC 7914 value of that password (N={} r={} p={} dkLen={} |pw|={})", c.n(), c.r, c.p, c.dk_len, c.pw_len);
        ensure!(inplace[c.dk_len..] == pw[c.dk_len..], "in-place derivation changed password bytes beyond the requested output length");
    }
    ok(c.r > 1 || c.p > 1 || (c.dk_len != 32 && c.dk_len != 64), format!("N=2^{}{}{}", if c.log_n <= 5 { "1-5" } else if c.log_n <= 10 { "6-10" } else { "11-15" }, if c.r != c.p { "/r!=p" } else { "" }, if c.dk_len % 32 != 0 { "/dk%32!=0" } else { "" }))
}

/// The same comparison while the allocator hands out byte buffers at odd addresses (an alignment-1 request is owed no
/// more): the result must not depend on where the heap happens to place the working blocks.
pub struct Misaligned; impl Misaligned { pub fn on() -> Self { crate::alloc::misalign(true); Misaligned } } impl Drop for Misaligned { fn drop(&mut self) { crate::alloc::misalign(false); } }
pub fn check_misaligned(c: &Case) -> CheckResult {
    let (pw, salt) = (c.pw(), c.salt());
    let want = kspec::scrypt(&pw, &salt, c.n() as usize, c.r as usize, c.p as usize, c.dk_len);
    let (got, odd) = { let _m = Misaligned::on(); let probe: Vec<u8> = Vec::with_capacity(64); let odd = probe.as_ptr() as usize & 1 == 1; let (pw2, salt2) = (pw.to_vec(), salt.to_vec()); (kc::scrypt(&pw2, &salt2, c.n(), c.r, c.p, c.dk_len), odd) };
    ensure!(odd, "harness: the allocator did not misalign byte buffers");
    ensure!(got == want, "kestrel_crypto::scrypt differs from RFC 7914 when the heap hands out byte buffers at odd addresses (N={} r={} p={} dkLen={} |pw|={} |salt|={})", c.n(), c.r, c.p, c.dk_len, c.pw_len, c.salt_len);
    let mut buf = vec![0xA5u8; c.dk_len + 128];
    { let _m = Misaligned::on(); unsafe { crate::ffi::scrypt(pw.as_ptr(), pw.len(), salt.as_ptr(), salt.len(), c.n(), c.r, c.p, buf.as_mut_ptr().add(63), c.dk_len); } }
    ensure!(buf[63..63 + c.dk_len] == want[..] && buf[..63].iter().all(|&b| b == 0xA5) && buf[63 + c.dk_len..].iter().all(|&b| b == 0xA5), "exported C scrypt with an odd output address and odd-address heap buffers: wrong value or bytes written outside the request (N={} r={} p={} dkLen={})", c.n(), c.r, c.p, c.dk_len);
    ok(true, format!("misaligned/N=2^{}", if c.log_n <= 5 { "1-5" } else if c.log_n <= 10 { "6-10" } else { "11-15" }))
}

fn pipe(cmd: &mut std::process::Command, input: &str) -> Option<Vec<String>> {
    let mut ch = cmd.stdin(std::process::Stdio::piped()).stdout(std::process::Stdio::piped()).stderr(std::process::Stdio::piped()).spawn().ok()?;
    let mut si = ch.stdin.take()?; let inp = input.to_string();
    let t = std::thread::spawn(move || { let _ = si.write_all(inp.as_bytes()); });
    let out = ch.wait_with_output().ok()?; let _ = t.join();
    if !out.status.success() { eprintln!("{}", String::from_utf8_lossy(&out.stderr)); return None; }
    Some(String::from_utf8_lossy(&out.stdout).lines().map(|l| l.to_string()).collect())
}

#[derive(Clone, Debug, Serialize, Deserialize)]
pub struct Batch { pub case: Case, pub openssl: Option<String>, pub cdriver: Option<String> }
pub fn check_batch(b: &Batch) -> CheckResult {
    let c = &b.case; let (pw, salt) = (c.pw(), c.salt());
    let got = kspec::hex(&kc::scrypt(&pw, &salt, c.n(), c.r, c.p, c.dk_len));
    let spec = kspec::hex(&kspec::scrypt(&pw, &salt, c.n() as usize, c.r as usize, c.p as usize, c.dk_len));
    if let Some(o) = &b.openssl { if !o.starts_with("ERR") {
        if *o != spec { return Err(format!("ORACLE-DISAGREEMENT: kspec differs from OpenSSL for N={} r={} p={} dkLen={}", c.n(), c.r, c.p, c.dk_len)); }
        ensure!(got == *o, "kestrel_crypto::scrypt differs from OpenSSL's scrypt for N={} r={} p={} dkLen={}", c.n(), c.r, c.p, c.dk_len);
    } }
    if let Some(d) = &b.cdriver {
        let f: Vec<&str> = d.split_whitespace().collect();
        ensure!(f.len() == 4, "C driver produced no result line for N={} r={} p={} dkLen={}: {:?}", c.n(), c.r, c.p, c.dk_len, d);
        ensure!(f[0] == spec, "C program calling scrypt() through kestrel-crypto.h received a value different from RFC 7914 (N={} r={} p={} dkLen={})", c.n(), c.r, c.p, c.dk_len);
        ensure!(f[1] == "GUARD_OK", "C ABI: bytes outside the requested output were modified");
        ensure!(f[2] == "INPUT_OK", "C ABI: input buffers were modified");
        ensure!(f[3] == "SAME", "C ABI: two calls with the same arguments gave different results");
    }
    ok(true, format!("openssl:{} cdriver:{}", b.openssl.is_some(), b.cdriver.is_some()))
}

pub fn run(ctx: &Ctx) {
    set_rule("C18", "(password 0..200 B, salt 0..200 B, N = 2^(1..15), r 1..16 and rarely to 300 (fixed: 129, 1024), p 1..8 and rarely to 70 (fixed: 300), dkLen 1..200, 128*N*r within the memory bound, N*r*p bounded for time) biased to small N, r != p, dkLen in {1,31,32,33,63,64,65} and password lengths around 64: kestrel_crypto::scrypt == independent RFC 7914 implementation; the same case through the exported extern \"C\" function into a buffer framed by 64 guard bytes on each side; the library and the exported function again while the counting allocator hands out every alignment-1 block at an odd address and the output pointer is odd; a batch through OpenSSL's scrypt (hashlib) and through a C program that includes kestrel-crypto.h and links the static library built from the working tree (ASan, exact-size heap buffers). Non-trivial = r > 1 or p > 1 or dkLen not in {32, 64}; distinct by hash of the case");
    ctx.assume("caller preconditions of the C function are respected (valid pointers, correct lengths, N a power of two > 1)");
    let mem = if ctx.quick() { 8u64 << 20 } else { 64 << 20 };
    ctx.pbt("lib_and_ffi_vs_rfc7914", ctx.n(6_000, 150_000), || strat(mem), check);
    // RFC 7914 / production parameter sets, deterministically
    let fixed: Vec<Case> = vec![Case { seed: 1, pw_len: 0, salt_len: 0, log_n: 4, r: 1, p: 1, dk_len: 64 }, Case { seed: 2, pw_len: 8, salt_len: 4, log_n: 10, r: 8, p: 16, dk_len: 64 }, Case { seed: 3, pw_len: 13, salt_len: 14, log_n: 14, r: 8, p: 1, dk_len: 64 }, Case { seed: 4, pw_len: 7, salt_len: 32, log_n: 15, r: 8, p: 1, dk_len: 32 }, Case { seed: 5, pw_len: 100, salt_len: 32, log_n: 15, r: 8, p: 1, dk_len: 32 }, Case { seed: 6, pw_len: 5, salt_len: 5, log_n: 15, r: 16, p: 2, dk_len: 200 }, Case { seed: 7, pw_len: 9, salt_len: 9, log_n: 2, r: 1, p: 1, dk_len: 8161 }, Case { seed: 8, pw_len: 64, salt_len: 9, log_n: 3, r: 2, p: 1, dk_len: 16400 }, Case { seed: 9, pw_len: 6, salt_len: 6, log_n: 2, r: 129, p: 1, dk_len: 40 }, Case { seed: 10, pw_len: 6, salt_len: 6, log_n: 1, r: 1024, p: 2, dk_len: 33 }, Case { seed: 11, pw_len: 3, salt_len: 3, log_n: 2, r: 1, p: 300, dk_len: 20 }];
    ctx.sse_vec("fixed_parameter_sets", "RFC 7914 parameter sets and kestrel's production parameters (32768, 8, 1)", fixed.clone(), check);
    ctx.sse_vec("fixed_parameter_sets_odd_addresses", "the same parameter sets while the allocator places byte buffers at odd addresses", fixed.clone(), check_misaligned);
    ctx.pbt("odd_address_byte_buffers", ctx.n(1_500, 40_000), || strat(mem), check_misaligned);
    // state must not leak between calls: after a call that was refused (panic on dkLen = 0 / N not a power of two), valid calls still give the RFC value
    ctx.sse_vec("valid_call_after_refused_call", "scrypt with invalid parameters (caught panic) followed by the fixed parameter sets", vec![Case { seed: 11, pw_len: 3, salt_len: 3, log_n: 3, r: 1, p: 1, dk_len: 16 }, Case { seed: 12, pw_len: 9, salt_len: 0, log_n: 5, r: 2, p: 2, dk_len: 40 }], |c: &Case| {
        for bad in 0..3 { let _ = crate::core::guard(|| match bad { 0 => kc::scrypt(b"x", b"y", 16, 1, 1, 0), 1 => kc::scrypt(b"x", b"y", 6, 1, 1, 8), _ => kc::scrypt(b"x", b"y", 16, 0, 1, 8) }); }
        check(c) });
    // batch through OpenSSL and the C driver
    let nb = ctx.n(400, 6_000) as usize;
    let mut runner = proptest::test_runner::TestRunner::new_with_rng(Default::default(), proptest::test_runner::TestRng::from_seed(proptest::test_runner::RngAlgorithm::ChaCha, &ctx.derive_seed("batch", 0)));
    let st = strat(mem);
    let mut cases: Vec<Case> = fixed; while cases.len() < nb { cases.push(proptest::strategy::ValueTree::current(&st.new_tree(&mut runner).unwrap())); }
    if ctx.replay.is_none() {
        let input: String = cases.iter().map(|c| c.line()).collect();
        let openssl = pipe(std::process::Command::new("python3").arg(ctx.root.join("tools/scrypt_ref.py")), &input).filter(|v| v.len() == cases.len());
        let drv = ctx.root.join("target/scrypt_driver");
        let cdrv = if drv.exists() { pipe(&mut std::process::Command::new(&drv), &input).filter(|v| v.len() == cases.len()) } else { None };
        if openssl.is_none() { ctx.note("OpenSSL triangulation skipped: python3/hashlib.scrypt unavailable or failed"); }
        if cdrv.is_none() { ctx.note("C driver skipped: target/scrypt_driver missing or failed (a crash of the driver under ASan is reported by the check script)"); if drv.exists() { ctx.set_inconclusive("the C ABI driver did not complete (crash or sanitizer report) - see stderr"); } }
        ctx.put("openssl_audited", serde_json::json!(openssl.is_some())); ctx.put("c_driver_ran", serde_json::json!(cdrv.is_some()));
        let batch: Vec<Batch> = cases.into_iter().enumerate().map(|(i, case)| Batch { case, openssl: openssl.as_ref().map(|v| v[i].clone()), cdriver: cdrv.as_ref().map(|v| v[i].clone()) }).collect();
        ctx.sse_vec("openssl_and_c_driver", "batch of generated parameter tuples through hashlib.scrypt (OpenSSL) and the C driver", batch, |b| check_batch(b).map_err(|m| { if m.starts_with("ORACLE-DISAGREEMENT") { ctx.set_inconclusive(m.clone()); } m }));
    } else { ctx.sse_vec("openssl_and_c_driver", "", Vec::<Batch>::new(), check_batch); }
}
