//! C05 — sender identity needs its private key; only the addressed key decrypts.
use crate::core::{ok, set_rule, CheckResult, Ctx};
use crate::ensure;
use crate::gen::{self, Plain};
use crate::kx::{self, DecRes, EncRes};
use crate::sio::{Ev, RSched, WSched};
use proptest::prelude::*;
use serde::{Deserialize, Serialize};
use std::sync::atomic::{AtomicU64, Ordering};

#[derive(Clone, Debug, Serialize, Deserialize, PartialEq)]
pub enum Class {
    MismatchedSenderPub, /// the real encryptor run with an attacker's private key and the public key of S, right after S's own encryption to the same recipient
    BorrowedSenderPub, WrongRecipient, RightSkWrongPub, WrongSkRightPub,
    ClaimOtherStatic, AttackerSs, WrongEs,
    /// handshakes written by something that does not follow Noise X: a token left out, the payload sealed under the key of an earlier stage
    SkipSs { low_order_static: Option<usize> }, SkipEs,
    Splice { field: u8, same_sender: bool },
    LowOrderRecipient { idx: usize }, LowOrderEphemeral { idx: usize }, LowOrderStatic { idx: usize },
    Honest,
}
#[derive(Clone, Debug, Serialize, Deserialize)]
pub struct Case { pub class: Class, pub plain: Plain, pub keys: u64, pub lens: Vec<usize>, pub ws: WSched }

static SPEC_HONEST_ACCEPTED: AtomicU64 = AtomicU64::new(0);
static SPEC_HONEST_REJECTED: AtomicU64 = AtomicU64::new(0);

fn class_strategy() -> impl Strategy<Value = Class> {
    let n = gen::low_order_points().len();
    prop_oneof![
        2 => Just(Class::MismatchedSenderPub), 2 => Just(Class::BorrowedSenderPub), 2 => Just(Class::WrongRecipient), 1 => Just(Class::RightSkWrongPub), 1 => Just(Class::WrongSkRightPub),
        2 => Just(Class::ClaimOtherStatic), 2 => Just(Class::AttackerSs), 2 => Just(Class::WrongEs),
        2 => proptest::option::of(0..n).prop_map(|low_order_static| Class::SkipSs { low_order_static }), 1 => Just(Class::SkipEs),
        4 => (0u8..4, any::<bool>()).prop_map(|(field, same_sender)| Class::Splice { field, same_sender }),
        2 => (0..n).prop_map(|idx| Class::LowOrderRecipient { idx }), 2 => (0..n).prop_map(|idx| Class::LowOrderEphemeral { idx }), 1 => (0..n).prop_map(|idx| Class::LowOrderStatic { idx }),
        2 => Just(Class::Honest),
    ]
}
pub fn strat() -> impl Strategy<Value = Case> {
    (class_strategy(), gen::small_plain(120), any::<u64>(), proptest::collection::vec(1usize..40, 0..4), gen::wsched_strategy())
        .prop_map(|(class, plain, keys, lens, ws)| Case { class, plain, keys, lens, ws })
}

fn no_output(sh: &crate::sio::Shared, calls_too: bool) -> Result<(), String> {
    if !sh.sink.borrow().is_empty() { return Err(format!("{} bytes were written although the operation must be refused", sh.sink.borrow().len())); }
    if calls_too && (sh.writes.get() > 0 || sh.flushes.get() > 0) { return Err(format!("the sink was touched ({} write, {} flush calls) although the key exchange must be refused before anything is written", sh.writes.get(), sh.flushes.get())); }
    if sh.events.borrow().iter().any(|e| matches!(e, Ev::W { taken, .. } if *taken > 0)) { return Err("data written".into()); }
    Ok(())
}

pub fn check(c: &Case) -> CheckResult {
    let p = c.plain.bytes();
    let (s, s2, r, r2, att) = (kx::ident(c.keys, "S"), kx::ident(c.keys, "S'"), kx::ident(c.keys, "R"), kx::ident(c.keys, "R'"), kx::ident(c.keys, "attacker"));
    let (e, e2, pl, pl2) = (gen::key32(c.keys, "e"), gen::key32(c.keys, "e2"), gen::key32(c.keys, "p"), gen::key32(c.keys, "p2"));
    let mut lens: Vec<usize> = Vec::new(); let mut left = p.len();
    for &l in &c.lens { if left == 0 { break; } let l = l.min(left); lens.push(l); left -= l; } if left > 0 { lens.push(left); }
    let honest = kx::key_encrypt_chunked(&p, &lens, &s, &r.pk, &e, &pl).map_err(|e| format!("honest encryption failed: {}", e))?;
    let dec = |f: &[u8], sk: &[u8; 32], pk: &[u8; 32]| kx::key_decrypt(f, &RSched::full(), &c.ws, None, sk, pk);
    let must_reject = |f: &[u8], sk: &[u8; 32], pk: &[u8; 32], what: &str| -> Result<(), String> {
        let (res, sh) = dec(f, sk, pk);
        if let DecRes::Ok(snd) = &res { return Err(format!("{}: decryption ACCEPTED (reported sender {})", what, snd.map(|x| kspec::hex(&x)).unwrap_or_default())); }
        no_output(&sh, false).map_err(|m| format!("{}: {}", what, m))
    };
    let low = gen::low_order_points();
    match &c.class {
        Class::Honest => {
            let (res, sh) = dec(&honest, &r.sk, &r.pk);
            match res { DecRes::Ok(Some(snd)) => { ensure!(snd == s.pk, "honest file: reported sender is not the sender"); ensure!(*sh.sink.borrow() == p, "honest file: plaintext differs"); } other => return Err(format!("honest file rejected: {:?}", other)) }
            // informational: is a kspec-written honest file accepted (so that the kspec-built forgeries below are meaningful)?
            let spec = kspec::key_file(&s.sk, &r.pk, &e, &pl, &p, &lens);
            if dec(&spec, &r.sk, &r.pk).0.is_ok() { SPEC_HONEST_ACCEPTED.fetch_add(1, Ordering::Relaxed); } else { SPEC_HONEST_REJECTED.fetch_add(1, Ordering::Relaxed); }
            return ok(false, "f:honest");
        }
        Class::MismatchedSenderPub => {
            // real encryptor, private key of S, claimed public key of S'
            let (res, sh) = kx::key_encrypt(&p, &RSched { gives: lens.clone(), then: 0 }, &WSched::all(), None, &s.sk, &s2.pk, &r.pk, Some(&e), Some(&pl));
            if res.is_ok() { let f = sh.sink.take(); must_reject(&f, &r.sk, &r.pk, "file whose embedded sender key (S') does not match the private key used (S)")?; }
        }
        Class::BorrowedSenderPub => {
            // the honest S -> R encryption above ran on this thread a moment ago; now somebody without S's private key names S as the sender
            for (esel, psel) in [(Some(&e2), Some(&pl2)), (None, None)] {
                let (res, sh) = kx::key_encrypt(&p, &RSched { gives: lens.clone(), then: 0 }, &WSched::all(), None, &att.sk, &s.pk, &r.pk, esel, psel);
                if res.is_ok() { let f = sh.sink.take(); must_reject(&f, &r.sk, &r.pk, "file made by the encryptor with an attacker's private key and S's public key as the claimed sender, right after S's own encryption to R")?; }
            }
        }
        Class::WrongRecipient => must_reject(&honest, &r2.sk, &r2.pk, "file for R presented to R'")?,
        Class::RightSkWrongPub => must_reject(&honest, &r.sk, &r2.pk, "file for R decrypted with R's private key but R' as its public key")?,
        Class::WrongSkRightPub => must_reject(&honest, &r2.sk, &r.pk, "file for R decrypted with R''s private key and R's public key")?,
        Class::ClaimOtherStatic | Class::AttackerSs | Class::WrongEs => {
            let (msg, h) = match c.class {
                Class::ClaimOtherStatic => kspec::key_header(&s.sk, &s2.pk, &r.pk, &e, &kspec::x25519_base(&e), &pl),
                Class::AttackerSs => kspec::key_header(&att.sk, &s.pk, &r.pk, &e, &kspec::x25519_base(&e), &pl),
                _ => kspec::key_header(&s.sk, &s.pk, &r.pk, &e2, &kspec::x25519_base(&e), &pl),
            };
            let mut f = kspec::MAGIC_KEY.to_vec(); f.extend_from_slice(&msg);
            kspec::write_chunks(&mut f, &kspec::file_key(&pl, &h), &[], &p, &lens);
            must_reject(&f, &r.sk, &r.pk, match c.class { Class::ClaimOtherStatic => "forged handshake claiming S' with ss from S", Class::AttackerSs => "forged handshake claiming S with ss from an attacker key", _ => "forged handshake whose es comes from a different ephemeral key" })?;
        }
        Class::SkipSs { low_order_static } => {
            // e, es, s as prescribed - then the payload is sealed WITHOUT mixing ss (anyone who knows R's public key can do this)
            let claimed = match low_order_static { Some(i) => low[*i % low.len()], None => s.pk };
            let mut st = kspec::Sym::new(kspec::NOISE_NAME); st.mix_hash(&kspec::MAGIC_KEY); st.mix_hash(&r.pk);
            let epk = kspec::x25519_base(&e); let mut m = epk.to_vec(); st.mix_hash(&epk); st.mix_key(&kspec::x25519(&e, &r.pk));
            m.extend_from_slice(&st.encrypt_and_hash(&claimed)); m.extend_from_slice(&st.encrypt_and_hash(&pl));
            let mut f = kspec::MAGIC_KEY.to_vec(); f.extend_from_slice(&m); kspec::write_chunks(&mut f, &kspec::file_key(&pl, &st.h), &[], &p, &lens);
            must_reject(&f, &r.sk, &r.pk, "handshake whose payload was sealed without the static-static key exchange (no sender private key involved)")?;
        }
        Class::SkipEs => {
            let mut st = kspec::Sym::new(kspec::NOISE_NAME); st.mix_hash(&kspec::MAGIC_KEY); st.mix_hash(&r.pk);
            let epk = kspec::x25519_base(&e); let mut m = epk.to_vec(); st.mix_hash(&epk);
            st.mix_key(&kspec::x25519(&s.sk, &r.pk)); m.extend_from_slice(&st.encrypt_and_hash(&s.pk)); m.extend_from_slice(&st.encrypt_and_hash(&pl));
            let mut f = kspec::MAGIC_KEY.to_vec(); f.extend_from_slice(&m); kspec::write_chunks(&mut f, &kspec::file_key(&pl, &st.h), &[], &p, &lens);
            must_reject(&f, &r.sk, &r.pk, "handshake without the ephemeral-static key exchange")?;
        }
        Class::Splice { field, same_sender } => {
            let other_sender = if *same_sender { &s } else { &s2 };
            let p2 = gen::bytes_from(c.keys ^ 77, p.len());
            let other = kx::key_encrypt_chunked(&p2, &lens, other_sender, &r.pk, &e2, &pl2).map_err(|e| format!("second honest encryption failed: {}", e))?;
            let mut f = honest.clone();
            match field { 0 => f[4..36].copy_from_slice(&other[4..36]), 1 => f[36..84].copy_from_slice(&other[36..84]), 2 => f[84..132].copy_from_slice(&other[84..132]), _ => { f.truncate(132); f.extend_from_slice(&other[132..]); } }
            if f != honest { must_reject(&f, &r.sk, &r.pk, &format!("handshake field {} taken from another authentic file to the same recipient", field))?; }
        }
        Class::LowOrderRecipient { idx } => {
            let pt = low[*idx % low.len()];
            let (res, sh) = kx::key_encrypt(&p, &RSched::full(), &c.ws, None, &s.sk, &s.pk, &pt, if c.keys & 1 == 0 { Some(&e) } else { None }, Some(&pl));
            ensure!(!res.is_ok(), "key_encrypt produced a file for the low-order recipient key {}", kspec::hex(&pt));
            ensure!(matches!(res, EncRes::Other(_)), "key_encrypt to a low-order recipient failed with {:?} instead of the key-exchange error", res);
            no_output(&sh, true)?;
        }
        Class::LowOrderEphemeral { idx } => { let mut f = honest.clone(); f[4..36].copy_from_slice(&low[*idx % low.len()]); must_reject(&f, &r.sk, &r.pk, "file whose ephemeral key is a low-order point")?; }
        Class::LowOrderStatic { idx } => {
            // handshake built by the specification with a low-order static key: ss is all-zero for everyone
            let pt = low[*idx % low.len()];
            let (msg, h) = { // ss = 0 since DH(x, low-order) = 0
                let mut st = kspec::Sym::new(kspec::NOISE_NAME); st.mix_hash(&kspec::MAGIC_KEY); st.mix_hash(&r.pk);
                let epk = kspec::x25519_base(&e); let mut m = epk.to_vec(); st.mix_hash(&epk); st.mix_key(&kspec::x25519(&e, &r.pk));
                m.extend_from_slice(&st.encrypt_and_hash(&pt)); st.mix_key(&[0u8; 32]); m.extend_from_slice(&st.encrypt_and_hash(&pl)); (m, st.h) };
            let mut f = kspec::MAGIC_KEY.to_vec(); f.extend_from_slice(&msg);
            kspec::write_chunks(&mut f, &kspec::file_key(&pl, &h), &[], &p, &lens);
            must_reject(&f, &r.sk, &r.pk, "file whose static sender key is a low-order point (shared secret derivable from public data)")?;
        }
    }
    ok(true, format!("{:?}", c.class).split([' ', '{']).next().unwrap_or("").to_string())
}

/// The CLI names the sender by *exact* match of the encoded key: look-alike entries (same key text in another letter
/// case, same prefix, one character changed) are other keys and must not be reported as the sender.
#[derive(Clone, Debug, Serialize, Deserialize)]
pub struct Lookup { pub sender: u64, pub present_at: Option<u8>, pub lookalikes: Vec<(u8, u16)>, pub others: u8 }
pub fn check_lookup(c: &Lookup) -> CheckResult {
    use crate::keyring::{EncodedPk, Keyring};
    let spk = kx::ident(c.sender, "lookup-S").pk; let epk = kspec::encode_public_key(&spk);
    let mut entries: Vec<(String, String)> = Vec::new();
    for i in 0..(c.others % 4) { entries.push((format!("other{}", i), kspec::encode_public_key(&kx::ident(c.sender ^ (i as u64 + 1), "lookup-O").pk))); }
    for (k, (kind, pos)) in c.lookalikes.iter().enumerate() {
        let mut cs: Vec<char> = epk.chars().collect(); let p = crate::core::pick(*pos, cs.len());
        match kind % 4 {
            3 => { // another key that carries the SENDER's 4 checksum bytes (entries are not checksum-verified when a keyring is read)
                let mut b = kx::ident(c.sender ^ 0xABCD ^ *pos as u64, "lookup-L").pk.to_vec(); b.extend_from_slice(&kspec::sha256(&spk)[..4]); cs = kspec::base64(&b).chars().collect(); }
            0 => { for ch in cs.iter_mut() { if ch.is_ascii_alphabetic() { *ch = if ch.is_ascii_lowercase() { ch.to_ascii_uppercase() } else { ch.to_ascii_lowercase() }; } } }
            1 => { let ch = cs[p]; cs[p] = if ch.is_ascii_lowercase() { ch.to_ascii_uppercase() } else if ch.is_ascii_uppercase() { ch.to_ascii_lowercase() } else if ch == '+' { '/' } else { 'A' }; }
            _ => { cs[p] = if cs[p] == 'A' { 'B' } else { 'A' }; }
        }
        let v: String = cs.into_iter().collect();
        if v != epk && !entries.iter().any(|e| e.1 == v) { entries.push((format!("lookalike{}", k), v)); }
    }
    if let Some(at) = c.present_at { let i = (at as usize) % (entries.len() + 1); entries.insert(i, ("the-sender".into(), epk.clone())); }
    if entries.is_empty() { return ok(false, "empty"); }
    let text: String = entries.iter().map(|(n, k)| format!("[Key]\nName = {}\nPublicKey = {}\n\n", n, k)).collect();
    let kr = Keyring::new(&text).map_err(|e| format!("keyring with look-alike keys rejected: {}", e))?;
    let got = kr.get_name_from_key(&EncodedPk::try_from(epk.as_str()).unwrap());
    let want = c.present_at.map(|_| "the-sender".to_string());
    ensure!(got == want, "sender key {} is reported as {:?}; the keyring entry with exactly that key is {:?} (entries: {:?})", epk, got, want, entries.iter().map(|e| e.0.as_str()).collect::<Vec<_>>());
    ok(!c.lookalikes.is_empty(), format!("lookup/{}{}", if c.present_at.is_some() { "present" } else { "absent" }, if c.lookalikes.is_empty() { "" } else { "+lookalikes" }))
}

pub fn run(ctx: &Ctx) {
    set_rule("C05", "key quadruples (S, S', R, R', attacker) derived from a generated seed x a labelled construction class: real encryptor with mismatched sender_public; honest file presented to another key / wrong public half / wrong private half; handshakes forged with the independent specification (claimed static key != key used for ss, es from another ephemeral, low-order static key); each handshake field or the chunk area taken from a second authentic file to the same recipient; each of the 14 spellings of the zero-forcing u-coordinates as recipient of key_encrypt and as ephemeral field; positive controls from the real encryptor; and keyrings with look-alike public keys (other letter case, one character changed) queried with the sender's encoding through the lookup the CLI uses. Expected outcome is fixed by construction. Non-trivial = every case outside the positive controls; distinct by hash of the case");
    ctx.assume("only points whose every clamped multiple is zero are used as low-order inputs; full-order non-canonical encodings belong to C19");
    ctx.pbt("constructed_forgeries", ctx.n(120_000, 1_200_000), strat, check);
    // every low-order spelling, deterministically
    let n = gen::low_order_points().len();
    let cases: Vec<Case> = (0..n).flat_map(|idx| [Class::LowOrderRecipient { idx }, Class::LowOrderEphemeral { idx }, Class::LowOrderStatic { idx }, Class::SkipSs { low_order_static: Some(idx) }]).map(|class| Case { class, plain: Plain { len: 20, seed: 5 }, keys: ctx.seed, lens: vec![7], ws: WSched::all() }).collect();
    ctx.sse_vec("low_order_all", "all 14 encodings of small-order points x {recipient, ephemeral field, static field, static field with the ss token skipped}", cases, check);
    // what the tool prints about the sender, with stderr a file and with stderr a terminal, for names up to 99 characters next to entries named like their beginning (shared with C12)
    { use super::c12::{Case as C12, Req, FileKind, SenderPos, Sink, wiring_from}; let mut v = Vec::new();
      for names in [1u8, 2] { for pos in [SenderPos::First, SenderPos::Last, SenderPos::OnlyWithRecipient] { v.push(C12 { req: Req::KeyDec(FileKind::Authentic), plain: Plain { len: 21, seed: ctx.seed + names as u64 }, chunks: vec![], pos, wirings: vec![wiring_from(0), wiring_from(2)], sink: Sink::Healthy, sel: ctx.seed, prior_out: None, env_decoy: 0, in_name: 0, typed: true, out_kinds: vec![], in_kinds: vec![], names }); } }
      ctx.sse_vec("cli_sender_line_names", "decrypt of an authentic file with the sender's entry named in 99 characters and another entry named like its first 60, or among names that are beginnings of each other; password from the environment and typed at a terminal: the line names the sender's entry in full", v, super::c12::check); }
    ctx.pbt("sender_name_lookup_exact", ctx.n(30_000, 500_000), || (any::<u64>(), proptest::option::of(any::<u8>()), proptest::collection::vec((0u8..4, any::<u16>()), 0..4), 0u8..4).prop_map(|(sender, present_at, lookalikes, others)| Lookup { sender, present_at, lookalikes, others }), check_lookup);
    ctx.put("spec_written_honest_files", serde_json::json!({"accepted": SPEC_HONEST_ACCEPTED.load(Ordering::Relaxed), "rejected": SPEC_HONEST_REJECTED.load(Ordering::Relaxed), "note": "informational: shows the specification-built forgeries are rejected for their construction, not for a format mismatch"}));
}
