//! C15 — locked private keys: lossless, tamper-evident, in the documented format.
use crate::core::{ok, set_rule, CheckResult, Ctx};
use crate::ensure;
use crate::gen;
use crate::keyring::{EncodedSk, Keyring};
use kestrel_crypto::PrivateKey;
use proptest::prelude::*;
use serde::{Deserialize, Serialize};

#[derive(Clone, Debug, Serialize, Deserialize)]
pub enum Case {
    LockUnlock { sk: u64, w: Vec<u8>, salt: u64, wrong_sel: u64, n_wrong: usize },
    Flip { sk: u64, w: Vec<u8>, salt: u64, bit: usize },
    Malformed { s: String },
}

fn unlock_str(s: &str, w: &[u8]) -> Result<[u8; 32], String> {
    let esk = EncodedSk::try_from(s).map_err(|e| format!("try_from: {}", e))?;
    let k = Keyring::unlock_private_key(&esk, w).map_err(|e| format!("unlock: {}", e))?;
    k.as_bytes().try_into().map_err(|_| "unlock returned a key that is not 32 bytes".to_string())
}

pub fn check(c: &Case) -> CheckResult {
    match c {
        Case::LockUnlock { sk, w, salt, wrong_sel, n_wrong } => {
            let skb = gen::key32(*sk, "c15-sk"); let saltb = gen::key32(*salt, "c15-salt");
            let locked = Keyring::lock_private_key(&PrivateKey::try_from(&skb[..]).unwrap(), w, saltb);
            let spec = kspec::lock_private_key(&skb, w, &saltb);
            ensure!(locked.as_str() == spec, "lock_private_key output differs from the documented format (base64 of 65676B30 || salt || ChaCha20-Poly1305(scrypt(pw, salt, 32768, 8, 1), nonce 0, aad = version)); |w|={}", w.len());
            let back = unlock_str(locked.as_str(), w).map_err(|e| format!("unlocking with the locking password failed: {}", e))?;
            ensure!(back == skb, "unlock(lock(sk)) != sk");
            let variants = gen::wrong_passwords(w, *wrong_sel); let mut labels = Vec::new();
            for i in 0..(*n_wrong).min(variants.len()) {
                let (w2, label) = &variants[((*wrong_sel >> 16) as usize + i) % variants.len()];
                if w2 == w || gen::hmac_equiv(w, w2) { labels.push("equiv"); continue; }
                ensure!(unlock_str(locked.as_str(), w2).is_err(), "a locked key unlocked under a different password (variant {}, |w|={}, |w'|={})", label, w.len(), w2.len());
                labels.push(label);
            }
            ok(w.is_empty() || w.len() > 64 || !w.is_ascii() || labels.contains(&"bitflip"), format!("lock/pw:{}", if w.is_empty() { "empty" } else if w.len() > 64 { ">64" } else if !w.is_ascii() { "non-ascii" } else { "ascii" }))
        }
        Case::Flip { sk, w, salt, bit } => {
            let skb = gen::key32(*sk, "c15-sk"); let saltb = gen::key32(*salt, "c15-salt");
            // authentic blob from the implementation's own lock
            let locked = locked_cached(&skb, w, &saltb);
            let mut blob = kspec::base64_decode(&locked).ok_or("lock produced a string that is not strict base64")?;
            ensure!(blob.len() == 84, "locked blob is {} bytes, 84 documented", blob.len());
            let b = bit % (84 * 8); blob[b / 8] ^= 1 << (b % 8);
            let s = kspec::base64(&blob);
            if let Ok(k) = unlock_str(&s, w) { return Err(format!("a locked key with bit {} ({}) changed still unlocks (to {} key)", b, region(b / 8), if k == skb { "the original" } else { "a different" })); }
            ok(b >= 32, format!("flip/{}", region(b / 8)))
        }
        Case::Malformed { s } => {
            // never a panic (guarded by the engine); accepted by try_from only if it is strict base64 of 84 bytes
            let dec = kspec::base64_decode(s);
            match EncodedSk::try_from(s.as_str()) {
                Ok(esk) => { ensure!(dec.as_ref().map(|d| d.len()) == Some(84), "EncodedSk accepted a string that is not base64 of 84 bytes ({} chars)", s.len());
                    let r = Keyring::unlock_private_key(&esk, b"pw");
                    if dec.as_ref().unwrap()[..4] != kspec::MAGIC_SK { ensure!(r.is_err(), "a key blob with a wrong version field unlocked"); } }
                Err(_) => {}
            }
            ok(!s.is_empty(), format!("malformed/len{}", match s.len() { 0 => "0", 1..=111 => "<112", 112 => "=112", _ => ">112" }))
        }
    }
}
static LOCK_CACHE: std::sync::Mutex<Vec<(([u8; 32], Vec<u8>, [u8; 32]), String)>> = std::sync::Mutex::new(Vec::new());
/// The implementation's own lock output, computed once per (key, password, salt).
fn locked_cached(sk: &[u8; 32], w: &[u8], salt: &[u8; 32]) -> String {
    let key = (*sk, w.to_vec(), *salt);
    if let Some((_, s)) = LOCK_CACHE.lock().unwrap().iter().find(|(k, _)| *k == key) { return s.clone(); }
    let s = Keyring::lock_private_key(&PrivateKey::try_from(&sk[..]).unwrap(), w, *salt).as_str().to_string();
    LOCK_CACHE.lock().unwrap().push((key, s.clone())); s
}
fn region(byte: usize) -> &'static str { if byte < 4 { "version" } else if byte < 36 { "salt" } else if byte < 68 { "ciphertext" } else { "tag" } }

/// The key commands read the password from the environment: bytes that are not UTF-8 are either refused or kept apart
/// (a key locked under one byte string must not unlock under another).
#[derive(Clone, Debug, Serialize, Deserialize)]
pub struct EnvKey { pub a: Vec<u8>, pub b: Vec<u8> }
pub fn check_env_key(c: &EnvKey) -> CheckResult {
    use crate::cli::{In, Sandbox};
    if c.a == c.b || gen::hmac_equiv(&c.a, &c.b) || c.a.contains(&0) || c.b.contains(&0) { return ok(false, "skipped"); }
    let sb = Sandbox::new();
    let mut g = sb.cmd(&["key", "generate", "-o", "k.txt", "--env-pass"]).stdin(In::Bytes(b"me\n".to_vec())); g.env_os.push(("KESTREL_PASSWORD".into(), c.a.clone()));
    let r = g.run(); ensure!(matches!(r.code, Some(0) | Some(1)) && r.signal.is_none(), "abnormal end: {}", r.describe());
    if r.code == Some(1) { ensure!(sb.read("k.txt").is_none(), "a refused password still produced a key file"); return ok(true, "env-key/refused"); }
    let text = String::from_utf8(sb.read("k.txt").ok_or("no key file")?).map_err(|e| e.to_string())?;
    let locked = text.lines().find_map(|l| l.strip_prefix("PrivateKey = ")).ok_or("no PrivateKey line")?.to_string();
    let mut x = sb.cmd(&["key", "extract-pub", &locked, "--env-pass"]); x.env_os.push(("KESTREL_PASSWORD".into(), c.b.clone()));
    let r2 = x.run();
    ensure!(r2.code == Some(1) && !r2.stdout_s().contains("PublicKey"), "a key generated under the password bytes {} was unlocked by `key extract-pub` under the different bytes {}", kspec::hex(&c.a), kspec::hex(&c.b));
    ok(true, "env-key/distinguished")
}

/// The commands that take a locked key on their command line: a changed blob or a wrong password must make each of them
/// fail and print no key - whatever the new password is (another one, the same as the old one that was given, empty).
#[derive(Clone, Debug, Serialize, Deserialize)]
pub struct CliKey { pub sk: u64, pub pw: String, pub bit: Option<usize>, pub wrong_pw: bool, pub cmd: u8 }
pub fn check_cli_key(c: &CliKey) -> CheckResult {
    use crate::cli::Sandbox;
    let skb = gen::key32(c.sk, "c15-sk"); let saltb = gen::key32(c.sk ^ 5, "c15-salt");
    let locked = locked_cached(&skb, c.pw.as_bytes(), &saltb);
    let given = match c.bit { Some(b) => { let mut blob = kspec::base64_decode(&locked).ok_or("lock produced a string that is not strict base64")?; let b = b % (84 * 8); blob[b / 8] ^= 1 << (b % 8); kspec::base64(&blob) } None => locked.clone() };
    // a wrong password: the right one plus a character, or (for the key locked under "alice") the name of a file that holds "alice"
    let old = if c.wrong_pw { if c.pw == "alice" && c.sk % 2 == 1 { "@pw".to_string() } else { format!("{}~", c.pw) } } else { c.pw.clone() };
    let sb = Sandbox::new(); sb.write("pwfile", b"alice\n"); sb.write("pw", b"alice");
    let (r, what) = match c.cmd % 4 {
        0 => (sb.cmd(&["key", "extract-pub", &given, "--env-pass"]).env("KESTREL_PASSWORD", &old).run(), "extract-pub"),
        1 => (sb.cmd(&["key", "change-pass", &given, "--env-pass"]).env("KESTREL_PASSWORD", &old).env("KESTREL_NEW_PASSWORD", "another password").run(), "change-pass (new password differs)"),
        2 => (sb.cmd(&["key", "change-pass", &given, "--env-pass"]).env("KESTREL_PASSWORD", &old).env("KESTREL_NEW_PASSWORD", &old).run(), "change-pass (new password = the old password given)"),
        _ => (sb.cmd(&["key", "change-pass", &given, "--env-pass"]).env("KESTREL_PASSWORD", &old).env("KESTREL_NEW_PASSWORD", "").run(), "change-pass (new password empty)"),
    };
    ensure!(r.signal.is_none() && !r.timed_out && matches!(r.code, Some(0) | Some(1)), "`key {}` ended abnormally: {}", what, r.describe());
    let bad = c.bit.is_some() || c.wrong_pw;
    let printed_key = r.stdout_s().contains("PrivateKey") || r.stdout_s().contains("PublicKey");
    if bad { ensure!(r.code == Some(1) && !printed_key, "`key {}` on a locked key {} exited {:?} and printed {:?}", what, match (c.bit, c.wrong_pw) { (Some(b), false) => format!("with bit {} ({}) changed", b % 672, region((b % 672) / 8)), (None, true) => "under a wrong password".to_string(), (Some(_), true) => "changed and under a wrong password".to_string(), _ => String::new() }, r.code, r.stdout_s().chars().take(80).collect::<String>()); }
    else { ensure!(r.code == Some(0) && printed_key, "`key {}` on an intact key under its password failed: {}", what, r.describe());
        if c.cmd % 4 != 0 { let out = r.stdout_s(); let l = out.lines().find_map(|l| l.strip_prefix("PrivateKey = ")).ok_or("no PrivateKey line")?.trim().to_string(); let newpw: &[u8] = match c.cmd % 4 { 1 => b"another password", 2 => old.as_bytes(), _ => b"" };
            ensure!(unlock_str(&l, newpw).ok() == Some(skb), "the string printed by `key {}` does not unlock to the same key under the new password", what); } }
    ok(bad, format!("cli-key/{}/{}", what.split(' ').next().unwrap_or(""), if c.bit.is_some() { "tampered" } else if c.wrong_pw { "wrong-password" } else { "control" }))
}

pub fn run(ctx: &Ctx) {
    set_rule("C15", "(32-byte key, password from the C02 domain, salt): lock == specification lock (string equality), unlock(lock) = key, generated wrong passwords rejected (HMAC-equivalent spellings excluded); single-bit flips of the 84-byte blob re-encoded to base64 (all 32 version bits, sampled/all salt, ciphertext and tag bits) must be rejected by try_from or unlock; the key commands of the binary (extract-pub, change-pass with the new password different from / equal to the old one / empty) on intact, tampered and wrongly-passworded keys; strings of every length 0..130 over base64 / non-base64 / Unicode alphabets and 112-character strings with one character replaced must be rejected or fail to unlock, never panic. Non-trivial = flip outside the version field, password empty / non-ASCII / > 64 bytes, or non-empty malformed string; distinct by hash of the case / enumeration index");
    ctx.assume("kspec::lock_private_key is the documented format (docs/file-format.txt) built on RFC 7914/8439 code validated at start-up");
    ctx.pbt("lock_unlock_wrong", ctx.n(160, 4_000), || (any::<u64>(), gen::password_strategy(), any::<u64>(), any::<u64>()).prop_map(|(sk, w, salt, wrong_sel)| Case::LockUnlock { sk, w, salt, wrong_sel, n_wrong: 2 }), check);
    let nkeys = ctx.n(16, 40) as usize;
    let mut flips = Vec::new();
    let pws: [&[u8]; 4] = [b"", b"hunter2", "pässwörd".as_bytes(), &[b'z'; 70]];
    for k in 0..nkeys {
        let bits: Vec<usize> = if ctx.quick() { (0..32).chain((0..40).map(|i| 32 + (i * 16 + k * 5 + (ctx.seed as usize % 16)) % 640)).collect() } else { (0..672).collect() };
        for bit in bits { flips.push(Case::Flip { sk: ctx.seed.wrapping_add(k as u64), w: pws[k % 4].to_vec(), salt: k as u64, bit }); }
    }
    ctx.sse_vec("bit_flips", &format!("{} keys x (all 32 version bits + {} of the 640 salt/ciphertext/tag bits)", nkeys, if ctx.quick() { "40 spread" } else { "all" }), flips, check);
    let valid = kspec::lock_private_key_with(&[7u8; 32], &[9u8; 32], &[3u8; 32]);
    let alphabets: [&str; 5] = ["A", "ZWdrMA==+/", "!*é\u{1F600} \t", "=", "ZWdrMDAw"];
    let mut mal = Vec::new();
    for len in 0..=130usize { for a in alphabets { let cs: Vec<char> = a.chars().collect(); mal.push(Case::Malformed { s: (0..len).map(|i| cs[(i * 7 + len) % cs.len()]).collect() }); } mal.push(Case::Malformed { s: valid.chars().take(len).collect() }); }
    for i in 0..112 { for r in ['=', '-', '_', ' ', '\n', 'é', 'A', '/'] { let mut cs: Vec<char> = valid.chars().collect(); cs[i] = r; mal.push(Case::Malformed { s: cs.into_iter().collect() }); } }
    { let cs: Vec<char> = valid.chars().collect(); for pos in 0..=cs.len() { for ch in [' ', '\n', '\t', '=', '-'] { let mut v = cs.clone(); v.insert(pos, ch); mal.push(Case::Malformed { s: v.into_iter().collect() }); } } }
    // the same 84 bytes in other base64 dialects (URL-safe alphabet, with/without padding, MIME line break): the format is the standard alphabet only
    for k in 0..40u8 { let v = kspec::lock_private_key_with(&[k; 32], &[k.wrapping_mul(7); 32], &[k.wrapping_add(3); 32]); if v.contains('+') || v.contains('/') { mal.push(Case::Malformed { s: v.replace('+', "-").replace('/', "_") }); mal.push(Case::Malformed { s: v.replace('+', "-") }); mal.push(Case::Malformed { s: v.replace('/', "_") }); mal.push(Case::Malformed { s: v.replace('+', ".").replace('/', ",") }); } let mut w = v.clone(); w.insert_str(76, "\r\n"); mal.push(Case::Malformed { s: w }); }
    mal.push(Case::Malformed { s: format!("{}=", valid) }); mal.push(Case::Malformed { s: format!("{}====", valid) }); mal.push(Case::Malformed { s: format!(" {}", valid) }); mal.push(Case::Malformed { s: format!("{}\n", valid) });
    ctx.sse_vec("malformed_strings", "every length 0..=130 x 6 alphabets; every position of a valid 112-character string x 8 replacement characters; padding/whitespace variants", mal, check);
    ctx.sse_vec("cli_env_password_bytes", "key generate under non-UTF-8 password bytes A, extract-pub under different bytes B: refused or told apart", vec![(b"caf\xe9".to_vec(), b"caf\xe8".to_vec()), (vec![0xff], vec![0xfe]), (vec![0xff], "\u{fffd}".as_bytes().to_vec()), (b"pw\x80".to_vec(), b"pw\x81".to_vec())].into_iter().map(|(a, b)| EnvKey { a, b }).collect(), check_env_key);
    { let mut v = Vec::new(); for cmd in 0..4u8 { v.push(CliKey { sk: 1, pw: "alice".into(), bit: None, wrong_pw: false, cmd }); v.push(CliKey { sk: 2, pw: "@pwfile".into(), bit: None, wrong_pw: false, cmd }); v.push(CliKey { sk: 2, pw: "@pw".into(), bit: None, wrong_pw: true, cmd }); v.push(CliKey { sk: 1, pw: "alice".into(), bit: None, wrong_pw: true, cmd }); for bit in [0usize, 9, 31, 40, 300, 500, 600, 671] { v.push(CliKey { sk: 1, pw: "alice".into(), bit: Some(bit), wrong_pw: false, cmd }); } }
      ctx.sse_vec("cli_key_commands_fixed", "extract-pub and change-pass (new password different / equal to the old one given / empty) on an intact key, under a wrong password, and with one bit of each region changed", v, check_cli_key);
      ctx.pbt("cli_key_commands", ctx.n(60, 1_500), || (0u64..4, prop_oneof![Just("alice".to_string()), Just(String::new()), Just("pässwörd".to_string()), Just("@pwfile".to_string()), Just("@pw".to_string()), Just("file:pw".to_string())], proptest::option::weighted(0.6, 0usize..672), any::<bool>(), 0u8..4).prop_map(|(sk, pw, bit, wrong_pw, cmd)| CliKey { sk, pw, bit, wrong_pw: wrong_pw && bit.is_none() || (wrong_pw && sk == 0), cmd }), check_cli_key); }
    ctx.pbt("malformed_random", ctx.n(20_000, 500_000), || prop_oneof![12 => "[A-Za-z0-9+/=]{0,130}", 12 => "\\PC{0,60}", 12 => "[A-Za-z0-9+/]{112}", 1 => "ZWdrM[A-Za-z0-9+/]{107}"].prop_map(|s| Case::Malformed { s }), check);
}
