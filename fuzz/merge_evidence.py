#!/usr/bin/env python3
"""Merges libFuzzer campaign statistics into /verif/evidence/<ID>.json (thorough tier)."""
import sys, json, re, os
ROOT = os.environ.get("VERIF_ROOT", "/verif")
pid, mode = sys.argv[1], sys.argv[2]
p = f"{ROOT}/evidence/{pid}.json"
ev = json.load(open(p))
cov = ev["coverage"]
if mode == "skipped":
    cov["fuzz"] = "skipped: " + " ".join(sys.argv[3:])
else:
    out = []
    for t in sys.argv[3:]:
        log = open(f"{ROOT}/target/fuzz-{pid}-{t}.log", errors="replace").read()
        g = lambda k: (re.findall(rf"stat::{k}:\s+(\d+)", log) or ["0"])[-1]
        runs = int(g("number_of_executed_units")); new_units = int(g("new_units_added"))
        covm = re.findall(r"cov: (\d+) ft: (\d+) corp: (\d+)", log)
        rc = open(f"{ROOT}/target/fuzz-{pid}-{t}.rc").read().strip() if os.path.exists(f"{ROOT}/target/fuzz-{pid}-{t}.rc") else "?"
        out.append({"target": t, "runs": runs, "new_units": new_units, "edges": int(covm[-1][0]) if covm else 0, "features": int(covm[-1][1]) if covm else 0, "corpus": int(covm[-1][2]) if covm else 0, "exit": rc,
                    "oracle": f"in-target semantic oracle for {pid} (KFUZZ_PROP={pid}); seeds: /verif/corpus/{t}"})
        cov["evaluations"] += runs
        cov["distinct_nontrivial"] += int(covm[-1][2]) if covm else 0   # corpus units are distinct inputs that each add coverage
    cov["fuzz"] = out
    cov["rule"] += " | libFuzzer campaigns: evaluations include executed units; distinct_nontrivial adds the number of corpus units (distinct inputs that each added coverage)"
json.dump(ev, open(p, "w"), indent=2); open(p, "a").write("\n")
