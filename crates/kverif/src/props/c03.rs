//! C03 — accepted ciphertext always yields exactly the sender's complete plaintext.
use crate::core::{ok, set_rule, CheckResult, Ctx};
use crate::mutate::{self, MCase, Mode, Mutant, PoolSel};
use crate::sio::{RSched, WSched};
use proptest::prelude::*;
use std::sync::atomic::{AtomicU64, Ordering};

pub static ACCEPTED: AtomicU64 = AtomicU64::new(0);

pub fn check(c: &MCase) -> CheckResult {
    let (p, f, res, sh, _) = mutate::present(c);
    let base = &p.files[c.m.base % p.files.len()];
    let sink = sh.sink.borrow();
    let accepted = mutate::judge_c03(&p, base, &f, &res, &sink)?;
    // explicit negative list: a file that differs from every authentic file outside counter fields must be rejected
    let authentic = p.files.iter().any(|a| a.mode == base.mode && a.masked_eq(&f));
    if !authentic && res.is_ok() { return Err("a file that is not authentic outside counter fields was accepted".into()); }
    if accepted { ACCEPTED.fetch_add(1, Ordering::Relaxed); }
    let magic_ok = base.mode == Mode::Hook || (f.len() >= 4 && (f[..4] == kspec::MAGIC_KEY || f[..4] == kspec::MAGIC_PASS));
    let class = format!("{}{}", mutate::classify(&p, &c.m), if accepted { "(accepted)" } else { "" });
    ok(!authentic && magic_ok, class)
}

fn mk(sel: PoolSel, seed: u64, m: Mutant, full: bool) -> MCase { MCase { sel, pool_seed: seed, m, full, rs: RSched::full(), ws: WSched::all(), fault: None } }

pub fn strat(sel: PoolSel, seed: u64, max_ops: usize, full_ratio: u32) -> impl Strategy<Value = MCase> {
    let p = mutate::pool(sel, seed);
    (mutate::mutant_strategy(&p, max_ops), 0u32..100, prop_oneof![3 => Just(RSched::full()), 2 => Just(RSched::dribble(1)), 1 => (2usize..9).prop_map(RSched::dribble), 2 => crate::gen::rsched_strategy()]).prop_map(move |(m, x, rs)| { let mut c = mk(sel, seed, m, x < full_ratio); if sel != PoolSel::KeyLarge { c.rs = rs; } c })
}

/// Same-recipient neighbours of `base` in the key pool: one from the same sender, one from another.
pub fn neighbours(p: &mutate::Pool, base: usize) -> Vec<usize> {
    let b = &p.files[base]; let mut v = Vec::new();
    if let Some(i) = p.files.iter().position(|f| !std::ptr::eq(f, b) && f.recipient == b.recipient && f.sender == b.sender && !f.recs.is_empty()) { v.push(i); }
    if let Some(i) = p.files.iter().position(|f| f.recipient == b.recipient && f.sender != b.sender && !f.recs.is_empty()) { v.push(i); }
    v
}

/// The same oracle at the command line: the mutated file is given to `kestrel decrypt`; exit 0 must mean the
/// complete plaintext of the governing authentic file is in the output and the sender line names its sender.
static CLI_KEYRINGS: std::sync::Mutex<Vec<(u64, String)>> = std::sync::Mutex::new(Vec::new());
fn cli_keyring(p: &mutate::Pool, seed: u64) -> String {
    if let Some((_, k)) = CLI_KEYRINGS.lock().unwrap().iter().find(|(s, _)| *s == seed) { return k.clone(); }
    use crate::keyring::Keyring; use kestrel_crypto::{PrivateKey, PublicKey};
    let mut t = String::new();
    for (i, id) in p.ids.iter().enumerate() {
        let epk = Keyring::encode_public_key(&PublicKey::try_from(&id.pk[..]).unwrap());
        if i >= 3 { let esk = Keyring::lock_private_key(&PrivateKey::try_from(&id.sk[..]).unwrap(), b"pool-pw", crate::gen::key32(seed + i as u64, "pool-salt")); t.push_str(&format!("[Key]\nName = id{}\nPublicKey = {}\nPrivateKey = {}\n\n", i, epk.as_str(), esk.as_str())); }
        else { t.push_str(&format!("[Key]\nName = id{}\nPublicKey = {}\n\n", i, epk.as_str())); }
    }
    CLI_KEYRINGS.lock().unwrap().push((seed, t.clone())); t
}
pub fn check_cli(c: &MCase) -> CheckResult {
    use crate::cli::In;
    let p = mutate::pool(c.sel, c.pool_seed); let base = &p.files[c.m.base % p.files.len()]; let f = mutate::apply(&p, &c.m);
    let pass = base.mode == mutate::Mode::Pass;
    // how the file reaches the tool and where the plaintext goes is part of the case: FILE argument or stdin, -o or stdout
    let sel = c.m.base + c.m.ops.len() + c.rs.gives.len() + c.ws.accepts.len() + c.rs.then; let (via_stdin, to_stdout) = (sel % 2 == 1, (sel / 2) % 2 == 1);
    let sb = crate::cli::Sandbox::new(); if !pass { sb.write("k.txt", cli_keyring(&p, c.pool_seed).as_bytes()); } sb.write("in.ktl", &f);
    let stale = (c.m.ops.len() % 2 == 1 || (sel / 4) % 2 == 1) && !to_stdout; let junk = crate::gen::bytes_from(9, 400); if stale { sb.write("out.bin", &junk); }
    let rcpt = format!("id{}", base.recipient);
    let mut a: Vec<&str> = if pass { vec!["password", "decrypt"] } else { vec!["decrypt"] };
    if !via_stdin { a.push("in.ktl"); } if !pass { a.extend(["-t", rcpt.as_str(), "-k", "k.txt"]); } if !to_stdout { a.extend(["-o", "out.bin"]); } a.push("--env-pass");
    let pw = if pass { String::from_utf8_lossy(&base.pw).into_owned() } else { "pool-pw".to_string() };
    let mut cmd = sb.cmd(&a).env("KESTREL_PASSWORD", &pw); if via_stdin { cmd = cmd.stdin(In::File(sb.path("in.ktl"))); }
    let r = cmd.run();
    let how = format!("{}{}", if via_stdin { "file on stdin" } else { "FILE argument" }, if to_stdout { ", plaintext to stdout" } else { ", -o" });
    crate::ensure!(!r.timed_out && r.signal.is_none() && matches!(r.code, Some(0) | Some(1)), "kestrel decrypt ({}) ended abnormally: {}", how, r.describe());
    let on_disk = sb.read("out.bin");
    // success with -o means the file is there and holds the plaintext - also when the plaintext is empty and something else was there before
    if r.code == Some(0) && !to_stdout { crate::ensure!(on_disk.is_some(), "`kestrel decrypt` ({}) exited 0 but there is no output file", how); crate::ensure!(!(stale && on_disk.as_deref() == Some(&junk[..])), "`kestrel decrypt` ({}) exited 0 but the output file still holds what was there before ({} bytes)", how, junk.len()); }
    let mut out = if to_stdout { r.stdout.clone() } else { on_disk.unwrap_or_default() }; if stale && out == junk { out.clear(); }
    let authentic = p.files.iter().find(|a| a.mode == base.mode && a.recipient == base.recipient && a.pw == base.pw && a.masked_eq(&f));
    if r.code == Some(0) {
        let a = authentic.ok_or_else(|| format!("`kestrel {}decrypt` ({}) exited 0 for a file that is not authentic outside counter fields ({} bytes presented, {} bytes written)", if pass { "password " } else { "" }, how, f.len(), out.len()))?;
        crate::ensure!(out == a.plain, "`kestrel {}decrypt` ({}) exited 0 but delivered {} bytes, the complete plaintext has {}", if pass { "password " } else { "" }, how, out.len(), a.plain.len());
        if !pass { crate::ensure!(r.stderr_s().contains(&format!("File from: id{}", a.sender)), "sender line does not name the file's sender: {}", r.stderr_s()); }
    }
    ok(authentic.is_none(), format!("cli/{}{}/{}{}", if pass { "pass/" } else { "" }, mutate::classify(&p, &c.m), if via_stdin { "stdin" } else { "file" }, if r.code == Some(0) { "(accepted)" } else { "" }))
}

pub fn run(ctx: &Ctx) {
    set_rule("C03", "authentic pools built with the implementation's own encryptor (key mode: 24 small files from 3 senders to 2 recipients + 4 files with 64 KiB chunks; password mode: 6 files; hook layer: 2x36 streams with their own keys and chunk sizes 1/2/4) x mutation programs (bit flips, set byte, truncate, append, record sequences incl. drop/dup/reorder/splice from other files, flag/length/counter edits, header-field exchange). SSE: every single-bit flip, every truncation, every 1-byte extension, every record sequence up to the bound, all listed flag/length values, every header-field and chunk-range exchange with two other files to the same recipient. Non-trivial = mutated file differs from every authentic pool file outside the 8-byte counter fields and starts with a valid magic; distinct by hash of (pool, program) / enumeration index");
    ctx.assume("AEAD forgery by a random modification (probability 2^-128 per case) is ignored; edits confined to the advisory counter fields may be accepted or rejected");
    let seed = ctx.seed;
    // SSE-1: hook layer
    for sel in [PoolSel::Hook, PoolSel::HookPass] {
        let p = mutate::pool(sel, seed);
        let mut cases = Vec::new();
        for b in 0..p.files.len() { let other = (b + 3) % p.files.len(); for m in mutate::sse_space(&p, b, 4, &[other]) {
            // appended bytes are also presented so that a read ends exactly where the authentic stream ends
            if matches!(m.ops.last(), Some(mutate::Op::Append { .. })) { let mut c = mk(sel, seed, m.clone(), true); c.rs = RSched { gives: vec![p.files[b].bytes.len()], then: 0 }; cases.push(c); let mut c = mk(sel, seed, m.clone(), true); c.rs = RSched::dribble(1); cases.push(c); }
            cases.push(mk(sel, seed, m, true)); } }
        ctx.sse_vec(if sel == PoolSel::Hook { "sse_hook" } else { "sse_hook_passaad" }, "36 streams (1..4 records, cs 1/2/4): all bit flips, truncations, 1-byte extensions, record sequences <=4, flag/len edits, chunk ranges of another stream", cases, check);
    }
    // SSE-2: key mode through the public API
    let p = mutate::pool(PoolSel::KeySmall, seed);
    let nfiles = if ctx.quick() { 8 } else { 24 };
    let mut cases = Vec::new();
    for b in 0..nfiles { for m in mutate::sse_space(&p, b, if ctx.quick() { 4 } else { 5 }, &neighbours(&p, b)) { cases.push(mk(PoolSel::KeySmall, seed, m, true)); } }
    ctx.sse_vec("sse_keyfile", &format!("{} key-mode files: all bit flips, truncations, 1-byte extensions, record sequences, flag/len edits, header-field and chunk-range exchange with 2 files to the same recipient", nfiles), cases, check);
    // thorough: all pairs of bit flips for short hook streams
    if !ctx.quick() {
        let p = mutate::pool(PoolSel::Hook, seed);
        let mut cases = Vec::new();
        for b in 0..p.files.len() { let n = p.files[b].bytes.len() * 8; if n > 70 * 8 { continue; } for i in 0..n { for j in (i + 1)..n { cases.push(mk(PoolSel::Hook, seed, Mutant { base: b, ops: vec![mutate::Op::FlipBit { pos: i }, mutate::Op::FlipBit { pos: j }] }, true)); } } }
        ctx.sse_vec("sse_hook_flip_pairs", "all pairs of bit flips of hook streams <= 70 bytes", cases, check);
    }
    // PBT: multi-op programs
    ctx.pbt("pbt_key_small", ctx.n(60_000, 1_500_000), || strat(PoolSel::KeySmall, seed, 6, 100), check);
    ctx.pbt("pbt_key_large", ctx.n(3_000, 60_000), || strat(PoolSel::KeyLarge, seed, 3, 100), check);
    ctx.pbt("pbt_hook", ctx.n(60_000, 1_500_000), || strat(PoolSel::HookPass, seed, 6, 100), check);
    // password mode: chunk area through the hooked loop with the real derived key; header edits and a sample of the rest through pass_decrypt
    ctx.pbt("pbt_pass", ctx.n(4_000, 60_000), || strat(PoolSel::Pass, seed, 4, 4), check);
    if !ctx.quick() {
        let p = mutate::pool(PoolSel::Pass, seed);
        let cases: Vec<MCase> = (0..288).map(|pos| mk(PoolSel::Pass, seed, Mutant { base: 0, ops: vec![mutate::Op::FlipBit { pos }] }, true)).collect();
        let _ = p;
        ctx.sse_vec("sse_pass_header", "all 288 header bits of a password-mode file through pass_decrypt", cases, check);
    }
    ctx.shrink_iters.store(30, std::sync::atomic::Ordering::Relaxed);
    ctx.pbt("cli_decrypt_mutants", ctx.n(240, 6_000), || strat(PoolSel::KeySmall, seed, 3, 100), check_cli);
    ctx.pbt("cli_password_decrypt_mutants", ctx.n(120, 3_000), || strat(PoolSel::Pass, seed, 3, 100), check_cli);
    // every one-byte and dictionary extension, each truncation class, of one file per mode, through both input wirings
    { let mut v = Vec::new(); for sel in [PoolSel::Pass, PoolSel::KeySmall] { let pl = mutate::pool(sel, seed); let n = pl.files[0].bytes.len();
        let mut ms: Vec<Mutant> = mutate::TAILS.iter().map(|t| Mutant { base: 0, ops: vec![mutate::Op::Append { bytes: t.to_vec() }] }).collect();
        ms.extend([n - 1, n - 16, n - 17, pl.files[0].hdr, pl.files[0].hdr + 16].into_iter().map(|len| Mutant { base: 0, ops: vec![mutate::Op::Truncate { len }] }));
        ms.push(Mutant { base: 0, ops: vec![] }); ms.push(Mutant { base: 0, ops: vec![mutate::Op::SetCounter { rec: 0, val: 5 }] });
        for m in ms { for k in 0..8usize { let mut c = mk(sel, seed, m.clone(), true); c.rs = RSched { gives: vec![], then: k }; v.push(c); } } }
      ctx.sse_vec("cli_extensions_and_truncations", "a password-mode and a key-mode file with each of 14 dictionary tails appended and 5 truncations, and the untouched file (the key-mode one has an empty plaintext) x {FILE argument, stdin} x {-o onto nothing, -o onto an older file, stdout}", v, check_cli); }
    ctx.put("accepted_mutants", serde_json::json!(ACCEPTED.load(Ordering::Relaxed)));
}
