//! Scripted `Read`/`Write` objects with a shared, totally ordered event log.
use serde::{Deserialize, Serialize};
use std::cell::{Cell, RefCell};
use std::io::{self, ErrorKind, Read, Write};
use std::rc::Rc;

#[derive(Clone, Copy, Debug, PartialEq, Eq, Serialize, Deserialize, Hash)]
pub enum Side { Read, Write, Flush }
#[derive(Clone, Copy, Debug, PartialEq, Eq, Serialize, Deserialize, Hash)]
pub enum FKind { Other, BrokenPipe, WouldBlock, Interrupted, UnexpectedEof, OutOfMemory, PermissionDenied, ZeroWrite,
    /// the call and the next 49 999 calls on that side are all interrupted (EINTR), then the side works again
    InterruptedStorm }
pub const FKINDS: [FKind; 8] = [FKind::Other, FKind::BrokenPipe, FKind::WouldBlock, FKind::Interrupted, FKind::UnexpectedEof, FKind::OutOfMemory, FKind::PermissionDenied, FKind::ZeroWrite];
pub const STORM: usize = 50_000;
impl FKind {
    pub fn kind(self) -> ErrorKind { match self { FKind::Other => ErrorKind::Other, FKind::BrokenPipe => ErrorKind::BrokenPipe, FKind::WouldBlock => ErrorKind::WouldBlock, FKind::Interrupted => ErrorKind::Interrupted, FKind::UnexpectedEof => ErrorKind::UnexpectedEof, FKind::OutOfMemory => ErrorKind::OutOfMemory, FKind::PermissionDenied => ErrorKind::PermissionDenied, FKind::ZeroWrite => ErrorKind::WriteZero, FKind::InterruptedStorm => ErrorKind::Interrupted } }
}
/// The k-th call (1-based) on `side` fails once with `kind`; later calls behave normally.
#[derive(Clone, Copy, Debug, PartialEq, Eq, Serialize, Deserialize, Hash)]
pub struct Fault { pub side: Side, pub k: usize, pub kind: FKind }

/// Read schedule: the i-th read returns at most `gives[i]` bytes (>=1), afterwards at most `then`
/// bytes (0 = as many as the caller asks for). Always clipped to the caller's buffer and the data left.
#[derive(Clone, Debug, PartialEq, Eq, Serialize, Deserialize, Hash, Default)]
pub struct RSched { pub gives: Vec<usize>, pub then: usize }
/// Write schedule: the i-th write accepts at most `accepts[i]` bytes (>=1), afterwards at most `then` (0 = all).
#[derive(Clone, Debug, PartialEq, Eq, Serialize, Deserialize, Hash, Default)]
pub struct WSched { pub accepts: Vec<usize>, pub then: usize }
impl RSched { pub fn full() -> Self { Self::default() } pub fn dribble(n: usize) -> Self { RSched { gives: vec![], then: n } } }
impl WSched { pub fn all() -> Self { Self::default() } pub fn dribble(n: usize) -> Self { WSched { accepts: vec![], then: n } } }

#[derive(Clone, Copy, Debug, PartialEq, Eq)]
pub enum Ev {
    /// read: asked, got, source offset after
    R { asked: usize, got: usize, off: usize },
    /// write: offered, taken, sink offset after, source offset at that moment
    W { offered: usize, taken: usize, off: usize, src: usize },
    F,
    X(Side),
}

#[derive(Default)]
pub struct Shared { pub events: RefCell<Vec<Ev>>, pub src_off: Cell<usize>, pub sink: RefCell<Vec<u8>>, pub fired: Cell<Option<Side>>, pub reads: Cell<usize>, pub writes: Cell<usize>, pub flushes: Cell<usize>, pub eof_seen: Cell<bool>, pub read_after_eof_data: Cell<bool>, pub log_events: Cell<bool> }

pub struct SReader<'a> { data: &'a [u8], sched: RSched, fault: Option<Fault>, sh: Rc<Shared> }
pub struct SWriter { sched: WSched, fault: Option<Fault>, sh: Rc<Shared> }

pub fn pair<'a>(data: &'a [u8], rs: &RSched, ws: &WSched, fault: Option<Fault>) -> (SReader<'a>, SWriter, Rc<Shared>) {
    let sh = Rc::new(Shared::default()); sh.log_events.set(true);
    (SReader { data, sched: rs.clone(), fault: fault.filter(|f| f.side == Side::Read), sh: sh.clone() },
     SWriter { sched: ws.clone(), fault: fault.filter(|f| f.side != Side::Read), sh: sh.clone() }, sh)
}

impl<'a> Read for SReader<'a> {
    fn read(&mut self, buf: &mut [u8]) -> io::Result<usize> {
        let sh = &self.sh; let call = sh.reads.get() + 1; sh.reads.set(call);
        if let Some(f) = self.fault { if f.kind == FKind::InterruptedStorm && call > f.k && call < f.k + STORM && sh.fired.get() == Some(Side::Read) { return Err(io::Error::new(ErrorKind::Interrupted, "injected read fault (storm)")); } }
        if let Some(f) = self.fault { if f.k == call && sh.fired.get().is_none() { sh.fired.set(Some(Side::Read)); if sh.log_events.get() { sh.events.borrow_mut().push(Ev::X(Side::Read)); } return Err(io::Error::new(f.kind.kind(), "injected read fault")); } }
        let pos = sh.src_off.get(); let left = self.data.len() - pos;
        let cap = if call <= self.sched.gives.len() { self.sched.gives[call - 1].max(1) } else if self.sched.then == 0 { usize::MAX } else { self.sched.then };
        let n = cap.min(buf.len()).min(left);
        buf[..n].copy_from_slice(&self.data[pos..pos + n]);
        sh.src_off.set(pos + n);
        if n == 0 && !buf.is_empty() { sh.eof_seen.set(true); }
        if sh.log_events.get() { sh.events.borrow_mut().push(Ev::R { asked: buf.len(), got: n, off: pos + n }); }
        Ok(n)
    }
}
impl Write for SWriter {
    fn write(&mut self, buf: &[u8]) -> io::Result<usize> {
        let sh = &self.sh; let call = sh.writes.get() + 1; sh.writes.set(call);
        if let Some(f) = self.fault { if f.kind == FKind::InterruptedStorm && f.side == Side::Write && call > f.k && call < f.k + STORM && sh.fired.get() == Some(Side::Write) { return Err(io::Error::new(ErrorKind::Interrupted, "injected write fault (storm)")); } }
        if let Some(f) = self.fault { if f.side == Side::Write && f.k == call && sh.fired.get().is_none() {
            sh.fired.set(Some(Side::Write)); if sh.log_events.get() { sh.events.borrow_mut().push(Ev::X(Side::Write)); }
            if f.kind == FKind::ZeroWrite { if sh.log_events.get() { sh.events.borrow_mut().push(Ev::W { offered: buf.len(), taken: 0, off: sh.sink.borrow().len(), src: sh.src_off.get() }); } return Ok(0); }
            return Err(io::Error::new(f.kind.kind(), "injected write fault")); } }
        let cap = if call <= self.sched.accepts.len() { self.sched.accepts[call - 1].max(1) } else if self.sched.then == 0 { usize::MAX } else { self.sched.then };
        let n = cap.min(buf.len());
        let mut sink = sh.sink.borrow_mut(); sink.extend_from_slice(&buf[..n]);
        if sh.log_events.get() { sh.events.borrow_mut().push(Ev::W { offered: buf.len(), taken: n, off: sink.len(), src: sh.src_off.get() }); }
        Ok(n)
    }
    fn write_vectored(&mut self, bufs: &[io::IoSlice<'_>]) -> io::Result<usize> {
        // same schedule and fault plan as `write`, applied to the concatenation of the buffers
        let sh = &self.sh; let call = sh.writes.get() + 1; sh.writes.set(call);
        let total: usize = bufs.iter().map(|b| b.len()).sum();
        if let Some(f) = self.fault { if f.side == Side::Write && f.k == call && sh.fired.get().is_none() {
            sh.fired.set(Some(Side::Write)); if sh.log_events.get() { sh.events.borrow_mut().push(Ev::X(Side::Write)); }
            if f.kind == FKind::ZeroWrite { if sh.log_events.get() { sh.events.borrow_mut().push(Ev::W { offered: total, taken: 0, off: sh.sink.borrow().len(), src: sh.src_off.get() }); } return Ok(0); }
            return Err(io::Error::new(f.kind.kind(), "injected write fault")); } }
        let cap = if call <= self.sched.accepts.len() { self.sched.accepts[call - 1].max(1) } else if self.sched.then == 0 { usize::MAX } else { self.sched.then };
        let n = cap.min(total); let mut left = n;
        let mut sink = sh.sink.borrow_mut();
        for b in bufs { if left == 0 { break; } let t = left.min(b.len()); sink.extend_from_slice(&b[..t]); left -= t; }
        if sh.log_events.get() { sh.events.borrow_mut().push(Ev::W { offered: total, taken: n, off: sink.len(), src: sh.src_off.get() }); }
        Ok(n)
    }
    fn flush(&mut self) -> io::Result<()> {
        let sh = &self.sh; let call = sh.flushes.get() + 1; sh.flushes.set(call);
        if let Some(f) = self.fault { if f.side == Side::Flush && f.k == call && sh.fired.get().is_none() {
            sh.fired.set(Some(Side::Flush)); if sh.log_events.get() { sh.events.borrow_mut().push(Ev::X(Side::Flush)); }
            let kind = if f.kind == FKind::ZeroWrite { ErrorKind::Other } else { f.kind.kind() };
            return Err(io::Error::new(kind, "injected flush fault")); } }
        if sh.log_events.get() { sh.events.borrow_mut().push(Ev::F); }
        Ok(())
    }
}

/// The chunking a conforming encryptor must produce for the reads that happened: the non-zero `got`s.
pub fn read_sizes(sh: &Shared) -> Vec<usize> { sh.events.borrow().iter().filter_map(|e| if let Ev::R { got, .. } = e { if *got > 0 { Some(*got) } else { None } } else { None }).collect() }
