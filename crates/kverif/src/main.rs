//! kverif: property-based checks for finfet/kestrel. `kverif <ID> --tier quick|thorough [--seed N] [--replay FILE]`
#![allow(clippy::too_many_arguments, clippy::type_complexity, dead_code)]
#[path = "/repo/src/cli/src/errors.rs"]
mod errors;
#[path = "/repo/src/cli/src/keyring.rs"]
mod keyring;
#[path = "/repo/src/ffi/src/lib.rs"]
mod ffi;

mod alloc;
mod cli;
mod core;
mod gen;
mod kx;
mod mutate;
mod props;
mod sio;

use crate::core::{Ctx, Tier};
use std::path::PathBuf;

#[global_allocator]
static GLOBAL: alloc::Counting = alloc::Counting;

fn main() {
    cli::detach_from_terminal();
    let args: Vec<String> = std::env::args().collect();
    if args.len() < 2 { eprintln!("usage: kverif <ID> [--tier quick|thorough] [--seed N] [--replay FILE] [--root DIR]"); std::process::exit(2); }
    let id = args[1].clone();
    let mut triage: Option<String> = None;
    let (mut tier, mut seed, mut replay, mut root) = (Tier::Quick, std::env::var("VERIF_SEED").ok().and_then(|s| s.parse::<i64>().ok()).map(|x| x as u64).unwrap_or(1), None::<String>, PathBuf::from(std::env::var("VERIF_ROOT").unwrap_or_else(|_| "/verif".into())));
    let mut i = 2;
    while i < args.len() {
        match args[i].as_str() {
            "--tier" => { tier = if args[i + 1] == "thorough" { Tier::Thorough } else { Tier::Quick }; i += 1; }
            "--seed" => { seed = args[i + 1].parse::<i64>().map(|x| x as u64).unwrap_or(1); i += 1; }
            "--replay" => { replay = Some(args[i + 1].clone()); i += 1; }
            "--root" => { root = PathBuf::from(&args[i + 1]); i += 1; }
            "--triage" => { triage = Some(args[i + 1].clone()); i += 1; }
            _ => {}
        }
        i += 1;
    }
    if id == "selftest" { match kspec::selftest() { Ok(n) => { println!("kspec selftest: {} vectors ok", n); return; } Err(e) => { eprintln!("{}", e); std::process::exit(2); } } }
    if let Some(rest) = id.strip_prefix("tool:") { std::process::exit(props::tool(rest, &args[2..])); }
    let replay_case = replay.as_ref().map(|p| {
        let txt = std::fs::read_to_string(p).unwrap_or_else(|e| { eprintln!("cannot read {}: {}", p, e); std::process::exit(2) });
        let v: serde_json::Value = serde_json::from_str(&txt).unwrap_or_else(|e| { eprintln!("bad replay file: {}", e); std::process::exit(2) });
        std::env::set_var("KVERIF_REPLAY_PATH", p);
        (v["sub"].as_str().unwrap_or("").to_string(), v["case"].clone())
    });
    if let Some(t) = triage { std::process::exit(core::triage(&id, &root, &t)); }
    // crash trace + hang monitor (always on for real runs; the file lives in scratch space unless the check script names it)
    let trace_file = std::env::var("KVERIF_TRACE_FILE").ok().filter(|s| !s.is_empty()).unwrap_or_else(|| cli::scratch_root().join(format!("kverif-trace-{}.bin", std::process::id())).to_string_lossy().into_owned());
    if replay.is_none() { core::trace_enable(&trace_file); core::start_hang_monitor(id.clone(), root.clone(), std::env::var("VERIF_HANG_S").ok().and_then(|s| s.parse().ok()).unwrap_or(if tier == Tier::Quick { 120 } else { 600 })); }
    core::install_panic_hook();
    if let Err(e) = kspec::selftest() { eprintln!("{}", e); std::process::exit(2); }
    // watchdog: a hang is inconclusive (exit 2), never a pass and never a violation
    let limit = std::env::var("VERIF_WATCHDOG_S").ok().and_then(|s| s.parse().ok()).unwrap_or(if tier == Tier::Quick { 1500u64 } else { 6 * 3600 });
    std::thread::spawn(move || { std::thread::sleep(std::time::Duration::from_secs(limit)); eprintln!("kverif: watchdog after {} s: inconclusive", limit); std::process::exit(2); });
    if let Some(p) = replay.clone() {
        // a replayed case that does not return: violation for C09 ("never a hang"), inconclusive otherwise
        let (id2, lim) = (id.clone(), std::env::var("VERIF_HANG_S").ok().and_then(|s| s.parse().ok()).unwrap_or(120u64));
        std::thread::spawn(move || { std::thread::sleep(std::time::Duration::from_secs(lim)); println!("replay: the case did not return within {} s", lim); if id2 == "C09" { println!("VIOLATION property={} replay={}", id2, p); std::process::exit(1); } std::process::exit(2); });
    }
    let ctx = Ctx::new(&id, tier, seed, root, replay_case);
    ctx.assume("kspec (independent executable specification) passed its RFC self-test at start-up");
    if let Ok(n) = std::env::var("KVERIF_EXTRA_NOTE") { ctx.note(n); }
    ctx.put("build_profile", serde_json::json!(if cfg!(debug_assertions) { "opt-level 3, debug assertions and overflow checks ON" } else { "opt-level 3, debug assertions and overflow checks OFF (as shipped)" }));
    // everything runs on a spawned thread (the stack size the worker threads have), so that a replay sees the same stack limit
    let known = std::thread::scope(|s| s.spawn(|| props::run(&ctx)).join().unwrap_or(true));
    if !known { eprintln!("unknown property {}", id); std::process::exit(2); }
    let rc = ctx.finish();
    for w in 0..core::TRACE_SLOTS { let _ = std::fs::remove_file(format!("{}.w{}.json", trace_file, w)); }
    if std::env::var("KVERIF_TRACE_FILE").map(|s| s.is_empty()).unwrap_or(true) { let _ = std::fs::remove_file(&trace_file); }
    std::process::exit(rc);
}
