//! Authentic file pools (built with the implementation's own encryptor) and mutation programs over them.
//! Shared by C03, C04, C09, C12, C13.
use crate::core::pick;
use crate::gen;
use crate::kx::{self, DecRes, Ident};
use crate::sio::{Ev, Fault, RSched, Shared, Side, WSched, FKind};
use proptest::prelude::*;
use serde::{Deserialize, Serialize};
use std::rc::Rc;

#[derive(Clone, Copy, Debug, PartialEq, Eq, Serialize, Deserialize)]
pub enum Mode { Key, Pass, Hook }

#[derive(Clone, Debug)]
pub struct PFile {
    pub mode: Mode, pub bytes: Vec<u8>, pub hdr: usize,
    /// (start, end) of every record in `bytes`
    pub recs: Vec<(usize, usize)>,
    pub plain: Vec<u8>,
    /// plaintext offset at which chunk j ends
    pub q: Vec<usize>,
    pub sender: usize, pub recipient: usize,
    /// stream key (Hook: the key given to the loop; Pass: the key the implementation's scrypt derives)
    pub key: [u8; 32], pub aad: Vec<u8>, pub pw: Vec<u8>, pub cs: u32,
}
impl PFile {
    fn index(&mut self) {
        self.recs.clear(); self.q.clear();
        let mut off = self.hdr; let mut q = 0;
        while off < self.bytes.len() {
            let len = u32::from_be_bytes(self.bytes[off + 12..off + 16].try_into().unwrap()) as usize;
            self.recs.push((off, off + 32 + len)); q += len; self.q.push(q); off += 32 + len;
        }
        assert_eq!(off, self.bytes.len()); assert_eq!(q, self.plain.len());
    }
    pub fn rec_bytes(&self, i: usize) -> &[u8] { &self.bytes[self.recs[i].0..self.recs[i].1] }
    /// Equality outside the 8-byte counter fields of this (authentic) file.
    pub fn masked_eq(&self, other: &[u8]) -> bool {
        if other.len() != self.bytes.len() { return false; }
        let mut a = self.bytes.clone(); let mut b = other.to_vec();
        for &(s, _) in &self.recs { a[s..s + 8].fill(0); b[s..s + 8].fill(0); }
        a == b
    }
    /// Number of leading records of this file that `other` carries intact (outside counters) at the same offsets.
    pub fn intact_prefix(&self, other: &[u8]) -> usize {
        if other.len() < self.hdr || other[..self.hdr] != self.bytes[..self.hdr] { return 0; }
        let mut n = 0;
        for &(s, e) in &self.recs { if other.len() >= e && other[s + 8..e] == self.bytes[s + 8..e] { n += 1; } else { break; } }
        n
    }
    pub fn region(&self, pos: usize) -> &'static str {
        if pos < self.hdr { return match (self.mode, pos) { (_, 0..=3) => "magic", (Mode::Key, 4..=35) => "e", (Mode::Key, 36..=83) => "enc_s", (Mode::Key, _) => "enc_payload", (_, _) => "salt" }; }
        for &(s, e) in &self.recs { if pos >= s && pos < e { let d = pos - s; return if d < 8 { "counter" } else if d < 12 { "flag" } else if d < 16 { "len" } else if pos >= e - 16 { "tag" } else { "ct" }; } }
        "beyond"
    }
}

pub struct Pool { pub files: Vec<PFile>, pub ids: Vec<Ident> }

fn lens_from(seed: u64, max_chunks: usize, max_len: usize) -> Vec<usize> {
    let b = gen::bytes_from(seed ^ 0xA5A5, 16);
    let n = (b[0] as usize) % (max_chunks + 1);
    (0..n).map(|i| 1 + (b[1 + i] as usize) % max_len).collect()
}

/// Key-mode pool: `n` small files (0..5 chunks of 1..40 bytes) from 3 senders to 2 recipients, real encryptor.
pub fn key_pool(seed: u64, n: usize) -> Pool {
    let ids: Vec<Ident> = (0..5).map(|i| kx::ident(seed.wrapping_mul(31).wrapping_add(i), "pool-id")).collect();
    let mut files = Vec::new();
    for i in 0..n {
        let fs = seed.wrapping_mul(1000).wrapping_add(i as u64);
        let lens = if i == 0 { vec![] } else if i == 1 { vec![7, 9, 4] } else { lens_from(fs, 5, 40) };
        let plain = gen::bytes_from(fs, lens.iter().sum());
        let (s, r) = (i % 3, 3 + (i / 3) % 2);
        let bytes = kx::key_encrypt_chunked(&plain, &lens, &ids[s], &ids[r].pk, &gen::key32(fs, "pool-e"), &gen::key32(fs, "pool-p")).expect("pool encryption");
        let mut f = PFile { mode: Mode::Key, bytes, hdr: 132, recs: vec![], plain, q: vec![], sender: s, recipient: r, key: [0; 32], aad: vec![], pw: vec![], cs: 65536 };
        f.index(); files.push(f);
    }
    Pool { files, ids }
}
/// Key-mode files with real 64 KiB chunks.
pub fn key_pool_large(seed: u64) -> Pool {
    let ids: Vec<Ident> = (0..5).map(|i| kx::ident(seed.wrapping_mul(31).wrapping_add(i), "pool-id")).collect();
    let shapes: [&[usize]; 4] = [&[65536, 10], &[65536, 65536], &[65535, 65536, 1], &[100, 65536, 65536, 3]];
    let mut files = Vec::new();
    for (i, lens) in shapes.iter().enumerate() {
        let fs = seed.wrapping_mul(7777).wrapping_add(i as u64);
        let plain = gen::bytes_from(fs, lens.iter().sum());
        let (s, r) = (i % 3, 3);
        let bytes = kx::key_encrypt_chunked(&plain, lens, &ids[s], &ids[r].pk, &gen::key32(fs, "pool-e"), &gen::key32(fs, "pool-p")).expect("pool encryption");
        let mut f = PFile { mode: Mode::Key, bytes, hdr: 132, recs: vec![], plain, q: vec![], sender: s, recipient: r, key: [0; 32], aad: vec![], pw: vec![], cs: 65536 };
        f.index(); files.push(f);
    }
    Pool { files, ids }
}
/// Hook-layer streams: each with its own key (as every real file has), tiny chunk sizes.
pub fn hook_pool(seed: u64, n: usize, pass_aad: bool) -> Pool {
    let mut files = Vec::new();
    for i in 0..n {
        let fs = seed.wrapping_mul(4242).wrapping_add(i as u64);
        let cs = [1u32, 2, 4][i % 3];
        let nrec = 1 + (i / 3) % 4;
        let b = gen::bytes_from(fs, 8);
        let lens: Vec<usize> = if i == 0 { vec![] } else { (0..nrec).map(|j| 1 + (b[j] as usize) % cs as usize).collect() };
        let plain = gen::bytes_from(fs, lens.iter().sum());
        let key = gen::key32(fs, "hook-key");
        let aad: Vec<u8> = if pass_aad { kspec::MAGIC_PASS.to_vec() } else { vec![] };
        let bytes = kx::enc_chunks_chunked(&plain, &lens, &key, &aad, cs).expect("pool stream");
        let mut f = PFile { mode: Mode::Hook, bytes, hdr: 0, recs: vec![], plain, q: vec![], sender: 0, recipient: 0, key, aad, pw: vec![], cs };
        f.index(); files.push(f);
    }
    Pool { files, ids: vec![] }
}
/// Password-mode pool: real pass_encrypt; the stream key is what the implementation's own scrypt derives.
pub fn pass_pool(seed: u64, n: usize) -> Pool {
    let mut files = Vec::new();
    for i in 0..n {
        let fs = seed.wrapping_mul(9091).wrapping_add(i as u64);
        let lens = if i == 0 { vec![5, 6] } else { lens_from(fs, 4, 30) };
        let plain = gen::bytes_from(fs, lens.iter().sum());
        let pw = format!("pool-password-{}", i).into_bytes();
        let salt = gen::key32(fs, "pool-salt");
        let (res, sh) = kx::pass_encrypt(&plain, &RSched { gives: lens.clone(), then: 0 }, &WSched::all(), None, &pw, salt);
        assert!(res.is_ok());
        let key: [u8; 32] = kestrel_crypto::scrypt(&pw, &salt, 32768, 8, 1, 32).try_into().unwrap();
        let mut f = PFile { mode: Mode::Pass, bytes: sh.sink.take(), hdr: 36, recs: vec![], plain, q: vec![], sender: 0, recipient: 0, key, aad: kspec::MAGIC_PASS.to_vec(), pw, cs: 65536 };
        f.index(); files.push(f);
    }
    Pool { files, ids: vec![] }
}

#[derive(Clone, Debug, PartialEq, Eq, Serialize, Deserialize, Hash)]
pub enum Op {
    FlipBit { pos: usize },
    SetByte { pos: usize, val: u8 },
    Truncate { len: usize },
    Append { bytes: Vec<u8> },
    /// Replace the chunk area by this sequence of (pool file, record index) records.
    Records { seq: Vec<(usize, usize)> },
    SetFlag { rec: usize, val: u32 },
    SetLen { rec: usize, val: u32, resize: bool },
    SetCounter { rec: usize, val: u64 },
    /// Replace header field `field` (0 magic, 1 e/salt, 2 enc_s, 3 enc_payload) by that of pool file `from`.
    Header { field: u8, from: usize },
}
#[derive(Clone, Debug, PartialEq, Eq, Serialize, Deserialize, Hash)]
pub struct Mutant { pub base: usize, pub ops: Vec<Op> }

fn rec_spans(b: &[u8], hdr: usize) -> Vec<(usize, usize)> {
    let mut v = Vec::new(); let mut off = hdr;
    while off + 16 <= b.len() { let len = u32::from_be_bytes(b[off + 12..off + 16].try_into().unwrap()) as usize; let end = off.saturating_add(32).saturating_add(len); if end > b.len() { break; } v.push((off, end)); off = end; }
    v
}
pub fn apply(pool: &Pool, m: &Mutant) -> Vec<u8> {
    let base = &pool.files[m.base % pool.files.len()];
    let mut b = base.bytes.clone();
    for op in &m.ops {
        match op {
            Op::FlipBit { pos } => { if !b.is_empty() { let p = pos % (b.len() * 8); b[p / 8] ^= 1 << (p % 8); } }
            Op::SetByte { pos, val } => { if !b.is_empty() { let p = pos % b.len(); b[p] = *val; } }
            Op::Truncate { len } => { let l = (*len).min(b.len()); b.truncate(l); }
            Op::Append { bytes } => b.extend_from_slice(bytes),
            Op::Records { seq } => { b.truncate(base.hdr.min(b.len())); for &(f, i) in seq { let pf = &pool.files[f % pool.files.len()]; if !pf.recs.is_empty() { b.extend_from_slice(pf.rec_bytes(i % pf.recs.len())); } } }
            Op::SetFlag { rec, val } => { let sp = rec_spans(&b, base.hdr); if !sp.is_empty() { let (s, _) = sp[rec % sp.len()]; b[s + 8..s + 12].copy_from_slice(&val.to_be_bytes()); } }
            Op::SetCounter { rec, val } => { let sp = rec_spans(&b, base.hdr); if !sp.is_empty() { let (s, _) = sp[rec % sp.len()]; b[s..s + 8].copy_from_slice(&val.to_be_bytes()); } }
            Op::SetLen { rec, val, resize } => { let sp = rec_spans(&b, base.hdr); if !sp.is_empty() { let (s, e) = sp[rec % sp.len()];
                b[s + 12..s + 16].copy_from_slice(&val.to_be_bytes());
                if *resize { let want = (*val as usize).min(200_000) + 16; let have = e - (s + 16); if want > have { let fill = vec![0x5a; want - have]; let tail = b.split_off(e - 16); b.extend_from_slice(&fill); b.extend_from_slice(&tail); } else { let tail = b.split_off(e - 16); b.truncate(s + 16 + want - 16); b.extend_from_slice(&tail); } } } }
            Op::Header { field, from } => { let o = &pool.files[from % pool.files.len()]; if o.hdr == base.hdr && base.hdr > 0 && b.len() >= base.hdr {
                let (s, e) = match (base.mode, field % 4) { (_, 0) => (0, 4), (Mode::Key, 1) => (4, 36), (Mode::Key, 2) => (36, 84), (Mode::Key, _) => (84, 132), (_, _) => (4, 36) };
                b[s..e].copy_from_slice(&o.bytes[s..e]); } }
        }
    }
    b
}
pub fn classify(pool: &Pool, m: &Mutant) -> String {
    let base = &pool.files[m.base % pool.files.len()];
    match m.ops.last() {
        None => "identity".into(),
        Some(Op::FlipBit { pos }) => format!("flip/{}", base.region((pos % (base.bytes.len() * 8).max(1)) / 8)),
        Some(Op::SetByte { pos, .. }) => format!("setbyte/{}", base.region(pos % base.bytes.len().max(1))),
        Some(Op::Truncate { len }) => { let l = (*len).min(base.bytes.len()); if base.recs.iter().any(|&(_, e)| e == l) || l == base.hdr { "truncate/record-boundary".into() } else { "truncate/inside".into() } }
        Some(Op::Append { .. }) => "append".into(),
        Some(Op::Records { seq }) => { let ident: Vec<(usize, usize)> = (0..base.recs.len()).map(|i| (m.base, i)).collect(); if *seq == ident { "records/identity".into() } else if seq.iter().any(|&(f, _)| f % pool.files.len() != m.base % pool.files.len()) { "records/splice".into() } else { "records/rearrange".into() } }
        Some(Op::SetFlag { .. }) => "setflag".into(),
        Some(Op::SetLen { resize, .. }) => if *resize { "setlen+resize".into() } else { "setlen".into() },
        Some(Op::SetCounter { .. }) => "setcounter".into(),
        Some(Op::Header { field, .. }) => format!("header/{}", field % 4),
    }
}

/// Run the real decryptor for the base file's mode on `f` (recipient / password / stream key of the base file).
pub fn decrypt_as(pool: &Pool, base: &PFile, f: &[u8], rs: &RSched, ws: &WSched, fault: Option<Fault>) -> (DecRes, Rc<Shared>) {
    match base.mode {
        Mode::Key => { let r = &pool.ids[base.recipient]; kx::key_decrypt(f, rs, ws, fault, &r.sk, &r.pk) }
        Mode::Pass => kx::pass_decrypt(f, rs, ws, fault, &base.pw),
        Mode::Hook => kx::dec_chunks(f, rs, ws, fault, &base.key, &base.aad, base.cs),
    }
}
/// Pass-mode chunk area through the hooked loop with the real derived key (no KDF per case).
pub fn decrypt_pass_chunks(base: &PFile, f: &[u8], rs: &RSched, ws: &WSched, fault: Option<Fault>) -> (DecRes, Rc<Shared>) {
    kx::dec_chunks(&f[36.min(f.len())..], rs, ws, fault, &base.key, &base.aad, 65536)
}

/// The authentic file that governs a presented file: same mode, same recipient, identical header.
pub fn governing<'a>(pool: &'a Pool, base: &PFile, f: &[u8]) -> Option<&'a PFile> {
    if base.mode == Mode::Hook { return pool.files.iter().find(|a| std::ptr::eq(*a, base)); }
    if f.len() < base.hdr { return None; }
    pool.files.iter().find(|a| a.mode == base.mode && a.recipient == base.recipient && a.bytes[..a.hdr] == f[..base.hdr])
}

/// C03: accepted => complete plaintext of the governing authentic file, file authentic outside counter fields, sender = its sender.
pub fn judge_c03(pool: &Pool, base: &PFile, f: &[u8], res: &DecRes, sink: &[u8]) -> Result<bool, String> {
    let DecRes::Ok(sender) = res else { return Ok(false) };
    let Some(a) = governing(pool, base, f) else { return Err(format!("decryption ACCEPTED a file whose header is not that of any authentic file ({} bytes presented, {} released)", f.len(), sink.len())) };
    if !a.masked_eq(f) { return Err(format!("decryption ACCEPTED a file that differs from the authentic file outside the counter fields (authentic {} bytes, presented {} bytes, released {} bytes, complete plaintext is {} bytes)", a.bytes.len(), f.len(), sink.len(), a.plain.len())); }
    if sink != &a.plain[..] { return Err(format!("decryption accepted but released {} bytes that are not the complete plaintext ({} bytes)", sink.len(), a.plain.len())); }
    if let Some(s) = sender { if *s != pool.ids[a.sender].pk { return Err("decryption accepted but reported a sender other than the file's sender".into()); } }
    Ok(true)
}

/// C04: invariants over the event log (see DESIGN A.3).
pub fn judge_c04(pool: &Pool, base: &PFile, f: &[u8], res: &DecRes, sh: &Shared, fault: Option<Fault>, shift: usize) -> Result<(usize, bool), String> {
    let sink = sh.sink.borrow();
    let gov = governing(pool, base, f);
    let Some(a) = gov else {
        if !sink.is_empty() { return Err(format!("{} plaintext bytes were released although the header belongs to no authentic file", sink.len())); }
        if res.is_ok() { return Err("success reported for a header that belongs to no authentic file".into()); }
        return Ok((0, false));
    };
    let jstar = a.intact_prefix(f);
    let qstar = if jstar == 0 { 0 } else { a.q[jstar - 1] };
    // (1) prefix of the authentic plaintext, made only of authenticated chunks
    if sink.len() > a.plain.len() || sink[..] != a.plain[..sink.len()] { return Err(format!("released bytes are not a prefix of the authentic plaintext ({} released)", sink.len())); }
    if sink.len() > qstar { return Err(format!("{} bytes released but only {} bytes belong to chunks that are authentic in the presented file", sink.len(), qstar)); }
    // (2) no byte of chunk j before record j has been delivered completely
    let ev = sh.events.borrow();
    let mut fault_at: Option<usize> = None;
    for (i, e) in ev.iter().enumerate() {
        match e {
            Ev::W { taken, off, src, .. } if *taken > 0 => {
                let last_byte = off - 1;
                let j = a.q.iter().position(|&q| last_byte < q).unwrap_or(a.q.len().saturating_sub(1));
                let need = a.recs.get(j).map(|r| r.1 - 0).unwrap_or(usize::MAX);
                let src = &(*src + shift);
                if *src < need { return Err(format!("a byte of chunk {} was written when only {} ciphertext bytes had been delivered (record {} ends at {})", j, src, j, need)); }
                if let Some(fi) = fault_at { if fault.map(|f| f.kind != FKind::Interrupted && f.kind != FKind::InterruptedStorm).unwrap_or(false) { return Err(format!("plaintext written (event {}) after an I/O fault had been reported (event {})", i, fi)); } }
            }
            Ev::X(_) => { if fault_at.is_none() { fault_at = Some(i); } }
            _ => {}
        }
    }
    // (3) whole chunks unless the sink itself failed mid-write
    let sink_fault = matches!(sh.fired.get(), Some(Side::Write) | Some(Side::Flush));
    if !sink_fault && sink.len() != 0 && !a.q.contains(&sink.len()) { return Err(format!("released length {} is not a chunk boundary of the authentic file (boundaries {:?})", sink.len(), a.q)); }
    // (4) success only after a final chunk verified and the ciphertext ended right after it
    if res.is_ok() {
        if !a.masked_eq(f) { return Err("success reported although the presented file is not the authentic file".into()); }
        if sink[..] != a.plain[..] { return Err("success reported before the complete plaintext was written".into()); }
        if sh.src_off.get() + shift != f.len() || !sh.eof_seen.get() { return Err("success reported without checking that the ciphertext ends after the final chunk".into()); }
    }
    Ok((jstar, !res.is_ok() && !sink.is_empty()))
}

// ---------------------------------------------------------------- strategies
pub fn op_strategy(pool_lens: Vec<usize>, pool_recs: Vec<usize>, base: usize) -> BoxedStrategy<Op> {
    let len = pool_lens[base]; let nrec = pool_recs[base]; let nfiles = pool_lens.len();
    let ident: Vec<(usize, usize)> = (0..nrec).map(|i| (base, i)).collect();
    let pr = pool_recs.clone();
    let rec_edit = (proptest::collection::vec((0u8..5, any::<u16>(), any::<u16>(), 0..nfiles), 1..4)).prop_map(move |edits| {
        let mut seq = ident.clone();
        for (k, a, b, f) in edits {
            match k {
                0 if seq.len() >= 2 => { let i = pick(a, seq.len()); let j = pick(b, seq.len()); seq.swap(i, j); }
                1 if !seq.is_empty() => { let i = pick(a, seq.len()); let x = seq[i]; seq.insert(pick(b, seq.len() + 1), x); }
                2 if !seq.is_empty() => { seq.remove(pick(a, seq.len())); }
                3 => { if pr[f] > 0 { let at = pick(b, seq.len() + 1); seq.insert(at, (f, pick(a, pr[f]))); } }
                _ => { if pr[f] > 0 && !seq.is_empty() { let i = pick(b, seq.len()); seq[i] = (f, pick(a, pr[f])); } }
            }
        }
        Op::Records { seq }
    });
    let nr = nrec.max(1);
    prop_oneof![
        4 => (0..(len * 8).max(1)).prop_map(|pos| Op::FlipBit { pos }),
        1 => (0..len.max(1), any::<u8>()).prop_map(|(pos, val)| Op::SetByte { pos, val }),
        2 => (0..=len).prop_map(|len| Op::Truncate { len }),
        2 => proptest::collection::vec(any::<u8>(), 1..40).prop_map(|bytes| Op::Append { bytes }),
        1 => (0..TAILS.len(), 1usize..4).prop_map(|(i, k)| Op::Append { bytes: TAILS[i].repeat(k) }),
        4 => rec_edit,
        1 => (0..nr, prop_oneof![Just(0u32), Just(1), Just(2), Just(1 << 24), any::<u32>()]).prop_map(|(rec, val)| Op::SetFlag { rec, val }),
        2 => (0..nr, prop_oneof![Just(0u32), 0u32..80, Just(65536), Just(65537), Just(1 << 31), Just(u32::MAX)], any::<bool>()).prop_map(|(rec, val, resize)| Op::SetLen { rec, val, resize }),
        1 => (0..nr, prop_oneof![Just(0u64), 0u64..6, any::<u64>()]).prop_map(|(rec, val)| Op::SetCounter { rec, val }),
        2 => (0u8..4, 0..nfiles).prop_map(|(field, from)| Op::Header { field, from }),
    ].boxed()
}
pub fn mutant_strategy(pool: &Pool, max_ops: usize) -> BoxedStrategy<Mutant> {
    let lens: Vec<usize> = pool.files.iter().map(|f| f.bytes.len()).collect();
    let recs: Vec<usize> = pool.files.iter().map(|f| f.recs.len()).collect();
    (0..lens.len()).prop_flat_map(move |base| (Just(base), proptest::collection::vec(op_strategy(lens.clone(), recs.clone(), base), 1..=max_ops))).prop_map(|(base, ops)| Mutant { base, ops }).boxed()
}

/// What tools and transports leave behind a file: line ends, NULs, blanks, end-of-text marks, a UTF-8 BOM.
pub const TAILS: [&[u8]; 14] = [b"\n", b"\r\n", b"\r", b"\n\r", b"\0", b" ", b"\t", b"\x1a", b"\x04", b"\xef\xbb\xbf", b"\r\n\0", b"\n\0", b"=\n", b"\xff"];
// ---------------------------------------------------------------- small-scope exhaustive spaces
/// Every single-bit flip, every truncation, every one-byte extension, every sequence of <= maxseq of the file's own
/// records, flag/length edits, and (for headers) every exchange of a header field with the other pool files.
pub fn sse_space(pool: &Pool, base: usize, maxseq: usize, others: &[usize]) -> Vec<Mutant> {
    let f = &pool.files[base]; let mut v = Vec::new();
    for pos in 0..f.bytes.len() * 8 { v.push(Mutant { base, ops: vec![Op::FlipBit { pos }] }); }
    for len in 0..f.bytes.len() { v.push(Mutant { base, ops: vec![Op::Truncate { len }] }); }
    for val in 0..=255u8 { v.push(Mutant { base, ops: vec![Op::Append { bytes: vec![val] }] }); }
    for t in TAILS { for k in 2..=3usize { v.push(Mutant { base, ops: vec![Op::Append { bytes: t.repeat(k) }] }); } if t.len() > 1 { v.push(Mutant { base, ops: vec![Op::Append { bytes: t.to_vec() }] }); } }
    let n = f.recs.len();
    if n > 0 {
        let mut seqs: Vec<Vec<(usize, usize)>> = vec![vec![]];
        let mut frontier: Vec<Vec<(usize, usize)>> = vec![vec![]];
        for _ in 0..maxseq { let mut next = Vec::new(); for s in &frontier { for i in 0..n { let mut t = s.clone(); t.push((base, i)); next.push(t); } } seqs.extend(next.iter().cloned()); frontier = next; }
        for seq in seqs { v.push(Mutant { base, ops: vec![Op::Records { seq }] }); }
        for rec in 0..n {
            for val in [0u32, 1, 2, 1 << 24] { v.push(Mutant { base, ops: vec![Op::SetFlag { rec, val }] }); }
            let l = (f.recs[rec].1 - f.recs[rec].0 - 32) as u32;
            for val in [0u32, l.wrapping_sub(1), l + 1, f.cs, f.cs + 1, 1 << 31, u32::MAX] { for resize in [false, true] { v.push(Mutant { base, ops: vec![Op::SetLen { rec, val, resize }] }); } }
        }
    }
    for &o in others {
        if f.hdr > 0 { for field in 0..(if f.mode == Mode::Key { 4 } else { 2 }) { v.push(Mutant { base, ops: vec![Op::Header { field, from: o }] }); } }
        let on = pool.files[o].recs.len();
        // chunk ranges of the other file replacing / following ours
        for a in 0..on { for b in a..on { let other: Vec<(usize, usize)> = (a..=b).map(|i| (o, i)).collect();
            v.push(Mutant { base, ops: vec![Op::Records { seq: other.clone() }] });
            for keep in 1..=n { let mut s: Vec<(usize, usize)> = (0..keep).map(|i| (base, i)).collect(); s.extend(other.iter().cloned()); v.push(Mutant { base, ops: vec![Op::Records { seq: s }] }); }
        } }
    }
    v
}

// ---------------------------------------------------------------- pool cache (pools are a function of (selector, seed) so replay files are self-contained)
#[derive(Clone, Copy, Debug, PartialEq, Eq, Hash, Serialize, Deserialize)]
pub enum PoolSel { KeySmall, KeyLarge, Hook, HookPass, Pass }
static CACHE: std::sync::Mutex<Vec<((PoolSel, u64), std::sync::Arc<Pool>)>> = std::sync::Mutex::new(Vec::new());
pub fn pool(sel: PoolSel, seed: u64) -> std::sync::Arc<Pool> {
    let mut c = CACHE.lock().unwrap();
    if let Some((_, p)) = c.iter().find(|(k, _)| *k == (sel, seed)) { return p.clone(); }
    let p = std::sync::Arc::new(match sel {
        PoolSel::KeySmall => key_pool(seed, 24), PoolSel::KeyLarge => key_pool_large(seed),
        PoolSel::Hook => hook_pool(seed, 36, false), PoolSel::HookPass => hook_pool(seed, 36, true), PoolSel::Pass => pass_pool(seed, 6),
    });
    c.push(((sel, seed), p.clone())); p
}
#[derive(Clone, Debug, Serialize, Deserialize)]
pub struct MCase { pub sel: PoolSel, pub pool_seed: u64, pub m: Mutant, pub full: bool, pub rs: RSched, pub ws: WSched, pub fault: Option<Fault> }
/// Present the mutated file to the real decryptor that the base file's mode calls for.
pub fn present(c: &MCase) -> (std::sync::Arc<Pool>, Vec<u8>, DecRes, Rc<Shared>, usize) {
    let p = pool(c.sel, c.pool_seed);
    let base = &p.files[c.m.base % p.files.len()];
    let f = apply(&p, &c.m);
    let via_hook = base.mode == Mode::Pass && !c.full && f.len() >= 36 && f[..36] == base.bytes[..36];
    let (res, sh) = if via_hook { decrypt_pass_chunks(base, &f, &c.rs, &c.ws, c.fault) } else { decrypt_as(&p, base, &f, &c.rs, &c.ws, c.fault) };
    (p, f, res, sh, if via_hook { 36 } else { 0 })
}
