#![no_main]
//! Bytes -> noise_decrypt for a fixed recipient. C09: returns, never panics. C03/C05: Ok only for an authentic message.
use kverif_fuzz::{gen, kx, on};
use libfuzzer_sys::fuzz_target;
use std::sync::OnceLock;
fn authentic() -> &'static Vec<Vec<u8>> {
    static A: OnceLock<Vec<Vec<u8>>> = OnceLock::new();
    A.get_or_init(|| (0..4u64).map(|i| { let (s, r) = (kx::ident(i, "fuzz-S"), kx::ident(0, "fuzz-R")); kx::key_encrypt_chunked(b"", &[], &s, &r.pk, &gen::key32(i, "fe"), &gen::key32(i, "fp")).unwrap()[4..132].to_vec() }).collect())
}
fuzz_target!(|data: &[u8]| {
    let r = kx::ident(0, "fuzz-R");
    let res = kestrel_crypto::noise_decrypt(&kx::sk(&r.sk), &kx::pk(&r.pk), &kspec::MAGIC_KEY, data);
    if res.is_ok() && on("C09") { assert!(authentic().iter().any(|a| a == data), "C09: noise_decrypt accepted a message that no sender produced"); }
});
