#![no_main]
//! String -> EncodedPk / EncodedSk / decode_public_key / unlock_private_key (oracle in src/lib.rs).
use libfuzzer_sys::fuzz_target;
fuzz_target!(|data: &[u8]| { kverif_fuzz::fuzz_encoded_keys(data); });
