//! C20 — key containers erase their secret bytes when dropped.
use crate::alloc;
use crate::core::{ok, set_rule, CheckResult, Ctx};
use crate::gen;
use kestrel_crypto::{PayloadKey, PrivateKey};
use proptest::prelude::*;
use serde::{Deserialize, Serialize};
use std::mem::MaybeUninit;

#[derive(Clone, Debug, Serialize, Deserialize)]
pub enum Op { NewPrivate(u64), Generate, NewPayload(u64), Clone(u16), Drop(u16), MoveToHeap(u16), ClonePublicPart(u16), DropWhileUnwinding(u16), CloneFrom(u16, u16), /// a whole key_encrypt + key_decrypt with every key supplied: whatever copies of them the library makes on the way are key containers too
    Handshake(u64) }
#[derive(Clone, Debug, Serialize, Deserialize)]
pub struct Program { pub ops: Vec<Op>, pub final_order: Vec<u16> }

/// A payload key behind a few bytes of other data: the key sits at an odd offset inside its heap block.
#[repr(C)]
struct Tagged { tag: [u8; 5], key: MaybeUninit<PayloadKey> }
enum Held { PrivInline(usize), PrivBoxed(Box<MaybeUninit<PrivateKey>>), PayInline(usize), PayBoxed(Box<MaybeUninit<PayloadKey>>), PayTagged(Box<Tagged>) }
/// Payload keys held inline live in a byte arena at offsets i*40 + i%8: every residue modulo 8 occurs (PayloadKey has alignment 1).
const PAY_STRIDE: usize = 40;
fn pay_slot(base: *mut u8, j: usize) -> *mut PayloadKey { unsafe { base.add(j * PAY_STRIDE + j % 8) as *mut PayloadKey } }
const ARENA: usize = 40;

/// Key material: never all-zero; one key in three carries zero bytes at generated positions (a wipe that
/// "detects" an already wiped key by looking for a zero byte must not be fooled).
fn nonzero_key(seed: u64) -> [u8; 32] { let mut k = gen::key32(seed, "c20"); for b in k.iter_mut() { if *b == 0 { *b = 0x5a; } } if seed % 3 == 0 { k[(seed >> 8) as usize % 32] = 0; if seed % 2 == 0 { k[(seed >> 16) as usize % 32] = 0; } } k }

/// Blocks released while a constructor ran must not hold the secret the constructor stored (positional agreement in
/// 24 or more of 32 bytes counts as holding it: clamping or re-encoding a key changes at most a few bits).
fn released_copy(secret: &[u8], blocks: &[Vec<u8>]) -> Option<usize> {
    if secret.len() < 32 { return None; }
    for b in blocks { if b.len() < 32 { continue; } for off in 0..=b.len() - 32 { let same = (0..32).filter(|&i| b[off + i] == secret[i]).count(); if same >= 24 { return Some(same); } } }
    None
}
macro_rules! journaled { ($e:expr) => {{ alloc::journal_start(); let v = $e; let (blocks, _) = alloc::journal_stop(); (v, blocks) }}; }
/// Observation only, never a verdict: a block released while a constructor runs may be a scratch buffer that never
/// belonged to a key container (`let v = secure_random(32); key.copy_from_slice(&v)` is a legitimate way to fill an
/// inline key), and from outside a constructor the two cannot be told apart. Counted and reported in the evidence.
pub static SCRATCH_COPIES: std::sync::atomic::AtomicU64 = std::sync::atomic::AtomicU64::new(0);
fn constructor_clean(secret: &[u8], blocks: &[Vec<u8>], _what: &str) -> Result<(), String> {
    if released_copy(secret, blocks).is_some() { SCRATCH_COPIES.fetch_add(1, std::sync::atomic::Ordering::Relaxed); }
    Ok(())
}

/// Drop the value at `p` in place and check that the storage it owned at that moment holds zeros where the key was.
unsafe fn drop_checked<T>(p: *mut T, key_ptr: *const u8, what: &str, origin: &str) -> Result<&'static str, String> {
    let (base, size) = (p as usize, std::mem::size_of::<T>());
    let kp = key_ptr as usize; let inline = kp >= base && kp + 32 <= base + size;
    let before: [u8; 32] = std::ptr::read(key_ptr as *const [u8; 32]);
    let slot = if inline { None } else { match alloc::watch(kp, 32) { Some(s) => Some(s), None => return Err("harness: watch table full".into()) } };
    std::ptr::drop_in_place(p);
    if inline {
        let mut after = [0u8; 32]; for i in 0..32 { after[i] = std::ptr::read_volatile((kp + i) as *const u8); }
        if after.iter().any(|&b| b != 0) { return Err(format!("{} ({}) dropped but its inline secret bytes are still in memory ({} of 32 bytes non-zero; unchanged: {})", what, origin, after.iter().filter(|&&b| b != 0).count(), after == before)); }
        Ok("inline")
    } else {
        let s = slot.unwrap(); let st = alloc::watch_state(s); alloc::watch_release(s);
        match st {
            alloc::W_ZERO => Ok("heap"),
            alloc::W_NONZERO => Err(format!("{} ({}) dropped: its heap block was released while still holding the secret bytes", what, origin)),
            _ => Ok("heap-not-released"),
        }
    }
}

/// Drop a boxed container from a frame that is unwinding; the allocator inspects the block that held the key.
fn drop_unwinding<T>(b: Box<T>, key_ptr: impl Fn(&T) -> *const u8, what: &str, origin: &str) -> Result<&'static str, String> {
    let kp = key_ptr(&b) as usize;
    let slot = alloc::watch(kp, 32).ok_or("harness: watch table full")?;
    let r = std::panic::catch_unwind(std::panic::AssertUnwindSafe(move || { let _owned = b; panic!("C20 harness: unwinding with a key alive"); }));
    let st = alloc::watch_state(slot); alloc::watch_release(slot);
    if r.is_ok() { return Err("harness: the frame did not unwind".into()); }
    match st {
        alloc::W_ZERO => Ok("erased"),
        alloc::W_NONZERO => Err(format!("{} ({}) dropped while the thread was unwinding from a panic: its memory was released still holding the secret bytes", what, origin)),
        _ => Ok("not-released"),
    }
}

pub fn check(prog: &Program) -> CheckResult {
    alloc::watch_clear();
    let mut priv_arena: [MaybeUninit<PrivateKey>; ARENA] = unsafe { MaybeUninit::uninit().assume_init() };
    let mut pay_bytes = [0u8; ARENA * PAY_STRIDE + 8]; let pay_arena: *mut u8 = pay_bytes.as_mut_ptr();
    let (mut np, mut ny) = (0usize, 0usize);
    let mut held: Vec<Option<(Held, &'static str)>> = Vec::new();
    let mut clone_dropped = false; let mut kinds = std::collections::BTreeSet::new();
    let mut result: Result<(), String> = Ok(());
    let drop_one = |h: Held, origin: &'static str, priv_arena: &mut [MaybeUninit<PrivateKey>; ARENA], pay_arena: *mut u8, kinds: &mut std::collections::BTreeSet<String>| -> Result<(), String> {
        unsafe { match h {
            Held::PrivInline(i) => { let p = priv_arena[i].as_mut_ptr(); let k = (*p).as_bytes().as_ptr(); kinds.insert(format!("private/arena/{}", drop_checked(p, k, "PrivateKey", origin)?)); }
            Held::PrivBoxed(mut b) => { let p = b.as_mut_ptr(); let k = (*p).as_bytes().as_ptr(); kinds.insert(format!("private/box/{}", drop_checked(p, k, "PrivateKey", origin)?)); }
            Held::PayInline(i) => { let p = pay_slot(pay_arena, i); let k = (*p).as_bytes().as_ptr(); kinds.insert(format!("payload/arena@{}/{}", (p as usize) % 8, drop_checked(p, k, "PayloadKey", origin)?)); }
            Held::PayTagged(mut b) => { let p = b.key.as_mut_ptr(); let k = (*p).as_bytes().as_ptr(); kinds.insert(format!("payload/tagged-box@{}/{}", (p as usize) % 8, drop_checked(p, k, "PayloadKey", origin)?)); }
            Held::PayBoxed(mut b) => { let p = b.as_mut_ptr(); let k = (*p).as_bytes().as_ptr(); kinds.insert(format!("payload/box/{}", drop_checked(p, k, "PayloadKey", origin)?)); }
        } }
        Ok(())
    };
    for op in &prog.ops {
        if result.is_err() { break; }
        let live: Vec<usize> = held.iter().enumerate().filter(|(_, h)| h.is_some()).map(|(i, _)| i).collect();
        let sel = |x: u16| -> Option<usize> { if live.is_empty() { None } else { Some(live[crate::core::pick(x, live.len())]) } };
        match op {
            Op::NewPrivate(s) => if np < ARENA { let kb = nonzero_key(*s); let (v, bl) = journaled!(PrivateKey::try_from(&kb[..]).unwrap()); if let Err(m) = constructor_clean(&kb, &bl, "PrivateKey::try_from(bytes)") { result = Err(m); } priv_arena[np].write(v); held.push(Some((Held::PrivInline(np), "from bytes"))); np += 1; },
            Op::Generate => if np < ARENA { let (v, bl) = journaled!(PrivateKey::generate()); if let Err(m) = constructor_clean(v.as_bytes(), &bl, "PrivateKey::generate") { result = Err(m); } priv_arena[np].write(v); held.push(Some((Held::PrivInline(np), "generated"))); np += 1; },
            Op::NewPayload(s) => if ny < ARENA { let kb = nonzero_key(*s); let (v, bl) = journaled!(PayloadKey::new(&kb)); if let Err(m) = constructor_clean(&kb, &bl, "PayloadKey::new") { result = Err(m); } unsafe { std::ptr::write(pay_slot(pay_arena, ny), v); } held.push(Some((Held::PayInline(ny), "from bytes"))); ny += 1; },
            Op::Clone(x) => if let Some(i) = sel(*x) { unsafe { match &held[i].as_ref().unwrap().0 {
                Held::PrivInline(j) => if np < ARENA { let (c, bl) = journaled!((*priv_arena[*j].as_ptr()).clone()); if let Err(m) = constructor_clean(c.as_bytes(), &bl, "PrivateKey::clone") { result = Err(m); } priv_arena[np].write(c); held.push(Some((Held::PrivInline(np), "clone"))); np += 1; },
                Held::PrivBoxed(b) => if np < ARENA { let (c, bl) = journaled!((*b.as_ptr()).clone()); if let Err(m) = constructor_clean(c.as_bytes(), &bl, "PrivateKey::clone") { result = Err(m); } priv_arena[np].write(c); held.push(Some((Held::PrivInline(np), "clone"))); np += 1; },
                Held::PayInline(j) => if ny < ARENA { let c = (*pay_slot(pay_arena, *j)).clone(); std::ptr::write(pay_slot(pay_arena, ny), c); held.push(Some((Held::PayInline(ny), "clone"))); ny += 1; },
                Held::PayBoxed(b) => if ny < ARENA { let c = (*b.as_ptr()).clone(); std::ptr::write(pay_slot(pay_arena, ny), c); held.push(Some((Held::PayInline(ny), "clone"))); ny += 1; },
                Held::PayTagged(b) => if ny < ARENA { let c = (*b.key.as_ptr()).clone(); std::ptr::write(pay_slot(pay_arena, ny), c); held.push(Some((Held::PayInline(ny), "clone"))); ny += 1; },
            } } },
            Op::ClonePublicPart(x) => if let Some(i) = sel(*x) { unsafe { if let Held::PrivInline(j) = &held[i].as_ref().unwrap().0 { let _ = (*priv_arena[*j].as_ptr()).to_public(); } } },
            Op::MoveToHeap(x) => if let Some(i) = sel(*x) { let (h, o) = held[i].take().unwrap(); unsafe { held[i] = Some((match h {
                Held::PrivInline(j) => { let v = std::ptr::read(priv_arena[j].as_ptr()); std::ptr::write_bytes(priv_arena[j].as_mut_ptr() as *mut u8, 0, std::mem::size_of::<PrivateKey>()); Held::PrivBoxed(Box::new(MaybeUninit::new(v))) }
                Held::PayInline(j) => { let v = std::ptr::read(pay_slot(pay_arena, j)); std::ptr::write_bytes(pay_slot(pay_arena, j) as *mut u8, 0, std::mem::size_of::<PayloadKey>()); if j % 2 == 0 { Held::PayBoxed(Box::new(MaybeUninit::new(v))) } else { Held::PayTagged(Box::new(Tagged { tag: [1, 2, 3, 4, 5], key: MaybeUninit::new(v) })) } }
                other => other }, o)); } },
            Op::CloneFrom(x, y) => if let (Some(i), Some(j)) = (sel(*x), sel(*y)) { if i != j { unsafe {
                // a.clone_from(&b): whatever storage the old value of `a` gives up must have been erased first
                let src_priv: Option<*const PrivateKey> = match &held[j].as_ref().unwrap().0 { Held::PrivInline(k) => Some(priv_arena[*k].as_ptr()), Held::PrivBoxed(b) => Some(b.as_ptr()), _ => None };
                let src_pay: Option<*const PayloadKey> = match &held[j].as_ref().unwrap().0 { Held::PayInline(k) => Some(pay_slot(pay_arena, *k) as *const PayloadKey), Held::PayBoxed(b) => Some(b.as_ptr()), Held::PayTagged(b) => Some(b.key.as_ptr()), _ => None };
                let dst_priv: Option<*mut PrivateKey> = match &mut held[i].as_mut().unwrap().0 { Held::PrivInline(k) => Some(priv_arena[*k].as_mut_ptr()), Held::PrivBoxed(b) => Some(b.as_mut_ptr()), _ => None };
                let dst_pay: Option<*mut PayloadKey> = match &mut held[i].as_mut().unwrap().0 { Held::PayInline(k) => Some(pay_slot(pay_arena, *k)), Held::PayBoxed(b) => Some(b.as_mut_ptr()), Held::PayTagged(b) => Some(b.key.as_mut_ptr()), _ => None };
                if let (Some(d), Some(s)) = (dst_priv, src_priv) {
                    let old = (*d).as_bytes().as_ptr() as usize; let slot = alloc::watch(old, 32);
                    (*d).clone_from(&*s);
                    if let Some(sl) = slot { let st = alloc::watch_state(sl); alloc::watch_release(sl);
                        if st == alloc::W_NONZERO { result = Err("PrivateKey::clone_from released the storage of the key it replaced while that storage still held the secret bytes".into()); }
                        kinds.insert(format!("clone_from/private/{}", match st { alloc::W_ZERO => "old-erased", alloc::W_NONZERO => "old-leaked", _ => "in-place" })); }
                    if (*d).as_bytes() != (*s).as_bytes() { result = Err("harness: clone_from did not copy the key".into()); }
                } else if let (Some(d), Some(s)) = (dst_pay, src_pay) { (*d).clone_from(&*s); kinds.insert("clone_from/payload/in-place".into()); }
            } } },
            Op::Handshake(k) => {
                use kestrel_crypto as kc; use crate::kx;
                let (ek, pk_, sk_, rk) = (nonzero_key(*k ^ 0x11), nonzero_key(*k ^ 0x22), nonzero_key(*k ^ 0x33), nonzero_key(*k ^ 0x44));
                let (esk, epk, pl, ssk, spk, rsk, rpk) = (kx::sk(&ek), kx::pk(&kspec::x25519_base(&ek)), PayloadKey::new(&pk_), kx::sk(&sk_), kx::pk(&kspec::x25519_base(&sk_)), kx::sk(&rk), kx::pk(&kspec::x25519_base(&rk)));
                let plain = [0x61u8; 40]; let mut ct: Vec<u8> = Vec::with_capacity(4096); let mut back: Vec<u8> = Vec::with_capacity(4096);
                alloc::journal_start();
                let er = kc::encrypt::key_encrypt(&mut &plain[..], &mut ct, &ssk, &spk, &rpk, Some(&esk), Some(&epk), Some(&pl), kc::AsymFileFormat::V1).is_ok();
                let dr = er && kc::decrypt::key_decrypt(&mut &ct[..], &mut back, &rsk, &rpk, kc::AsymFileFormat::V1).is_ok();
                let (blocks, overflow) = alloc::journal_stop();
                if !er || !dr || back != plain { result = Err("harness: the handshake round trip failed".into()); }
                else { // private keys travel through the library only inside PrivateKey containers (clones held by the handshake state). The payload
                // key is left out: noise_decrypt also holds its bytes in a plain Vec<u8> (the decrypted handshake payload), which is a
                // buffer, not a key container - outside this statement (noted in DESIGN.md section 11.3)
                for (secret, what) in [(&ek, "ephemeral private key"), (&sk_, "sender's private key"), (&rk, "recipient's private key")] { if let Some(n) = released_copy(secret, &blocks) { result = Err(format!("during key_encrypt / key_decrypt with all keys supplied a heap block holding a copy of the {} was released unerased ({} of 32 bytes agree)", what, n)); break; } } }
                kinds.insert(format!("handshake/{}blocks{}", if blocks.len() > 20 { ">20" } else { "<=20" }, if overflow { "/journal-overflow" } else { "" }));
            },
            Op::DropWhileUnwinding(x) => if let Some(i) = sel(*x) {
                // the value is owned by a frame that panics: its destructor runs during unwinding
                let (h, o) = held[i].take().unwrap(); if o == "clone" { clone_dropped = true; }
                let outcome: Result<&'static str, String> = unsafe { match h {
                    Held::PrivInline(j) => { let v = std::ptr::read(priv_arena[j].as_ptr()); std::ptr::write_bytes(priv_arena[j].as_mut_ptr() as *mut u8, 0, std::mem::size_of::<PrivateKey>()); drop_unwinding(Box::new(v), |b| b.as_bytes().as_ptr(), "PrivateKey", o) }
                    Held::PrivBoxed(b) => { let v = b.assume_init_read(); drop_unwinding(Box::new(v), |b| b.as_bytes().as_ptr(), "PrivateKey", o) }
                    Held::PayInline(j) => { let v = std::ptr::read(pay_slot(pay_arena, j)); std::ptr::write_bytes(pay_slot(pay_arena, j) as *mut u8, 0, std::mem::size_of::<PayloadKey>()); drop_unwinding(Box::new(v), |b| b.as_bytes().as_ptr(), "PayloadKey", o) }
                    Held::PayBoxed(b) => { let v = b.assume_init_read(); drop_unwinding(Box::new(v), |b| b.as_bytes().as_ptr(), "PayloadKey", o) }
                    Held::PayTagged(b) => { let v = std::ptr::read(b.key.as_ptr()); drop_unwinding(Box::new((7u8, v)), |b| b.1.as_bytes().as_ptr(), "PayloadKey", o) }
                } };
                match outcome { Ok(k) => { kinds.insert(format!("unwinding/{}", k)); } Err(m) => result = Err(m) }
            },
            Op::Drop(x) => if let Some(i) = sel(*x) { let (h, o) = held[i].take().unwrap(); if o == "clone" || held.iter().flatten().any(|(_, oo)| *oo == "clone") { clone_dropped = true; } result = drop_one(h, o, &mut priv_arena, pay_arena, &mut kinds); },
        }
    }
    // close: drop what is left, in the generated order (always, so nothing leaks even after a failure)
    let mut order: Vec<usize> = (0..held.len()).collect();
    for (k, x) in prog.final_order.iter().enumerate() { if !order.is_empty() { let a = k % order.len(); let b = crate::core::pick(*x, order.len()); order.swap(a, b); } }
    for i in order { if let Some((h, o)) = held[i].take() { if o == "clone" { clone_dropped = true; } let r = drop_one(h, o, &mut priv_arena, pay_arena, &mut kinds); if result.is_ok() { result = r; } } }
    result?;
    ok(clone_dropped, kinds.into_iter().collect::<Vec<_>>().join(","))
}

pub fn strat() -> impl Strategy<Value = Program> {
    let op = prop_oneof![2 => any::<u64>().prop_map(Op::NewPrivate), 1 => Just(Op::Generate), 2 => any::<u64>().prop_map(Op::NewPayload), 4 => any::<u16>().prop_map(Op::Clone), 3 => any::<u16>().prop_map(Op::Drop), 2 => any::<u16>().prop_map(Op::MoveToHeap), 1 => any::<u16>().prop_map(Op::ClonePublicPart), 1 => any::<u16>().prop_map(Op::DropWhileUnwinding), 2 => (any::<u16>(), any::<u16>()).prop_map(|(a, b)| Op::CloneFrom(a, b)), 1 => any::<u64>().prop_map(Op::Handshake)];
    (proptest::collection::vec(op, 1..30), proptest::collection::vec(any::<u16>(), 0..12)).prop_map(|(ops, final_order)| Program { ops, final_order })
}

pub fn run(ctx: &Ctx) {
    set_rule("C20", "programs of 1..30 operations over a table of key containers (every constructor and clone also journals the heap blocks released while it runs; blocks that hold the stored secret are counted as an observation, not judged: they may be scratch buffers that never belonged to a container) - PrivateKey from bytes, PrivateKey::generate, PayloadKey::new, clone of any live value, `clone_from` between live values, drop of any live value, drop while the owning frame unwinds from a panic, move into a Box (payload keys also into a box behind 5 bytes of other data, and inline at every address residue modulo 8) - closed by dropping the rest in a generated order. At every drop the storage owned at that moment is inspected: a separate heap block through the allocator (inside dealloc, before the block is returned), bytes stored inline by reading the slot back after drop_in_place; both for both types, so the verdict does not depend on where a type keeps its bytes. Non-trivial = a clone is dropped before or after its original; distinct by hash of the program");
    ctx.assume("only storage owned by the value at drop time is inspected; copies the compiler leaves behind when a value is moved are outside what a destructor controls");
    ctx.pbt("clone_drop_programs", ctx.n(600_000, 6_000_000), strat, check);
    // fixed minimal programs: each constructor, dropped directly and via a clone
    let fixed = vec![
        Program { ops: vec![Op::NewPrivate(1)], final_order: vec![] }, Program { ops: vec![Op::Handshake(1)], final_order: vec![] }, Program { ops: vec![Op::Generate, Op::Handshake(2), Op::Handshake(2)], final_order: vec![] }, Program { ops: vec![Op::Generate], final_order: vec![] }, Program { ops: vec![Op::NewPayload(1)], final_order: vec![] },
        Program { ops: vec![Op::NewPrivate(1), Op::Clone(0), Op::Drop(0)], final_order: vec![] }, Program { ops: vec![Op::NewPayload(1), Op::Clone(0), Op::Drop(65535)], final_order: vec![] },
        Program { ops: vec![Op::Generate, Op::Clone(0), Op::MoveToHeap(0), Op::MoveToHeap(65535)], final_order: vec![1] }, Program { ops: vec![Op::NewPayload(3), Op::MoveToHeap(0), Op::Clone(0)], final_order: vec![] },
        Program { ops: vec![Op::NewPrivate(3), Op::Clone(0), Op::DropWhileUnwinding(0), Op::DropWhileUnwinding(0)], final_order: vec![] },
        Program { ops: vec![Op::NewPayload(6), Op::Clone(0), Op::DropWhileUnwinding(0), Op::DropWhileUnwinding(0)], final_order: vec![] },
        Program { ops: vec![Op::NewPrivate(9), Op::NewPrivate(12), Op::NewPrivate(15), Op::NewPayload(9), Op::NewPayload(18)], final_order: vec![] },
        Program { ops: vec![Op::NewPrivate(1), Op::NewPrivate(2), Op::CloneFrom(0, 65535), Op::CloneFrom(65535, 0)], final_order: vec![] },
        Program { ops: (0..9).map(|i| Op::NewPayload(i + 1)).chain((0..9).map(|i| Op::MoveToHeap((i * 7000) as u16))).collect(), final_order: vec![] },
    ];
    ctx.put("constructor_scratch_copies_observed", serde_json::json!({"count": SCRATCH_COPIES.load(std::sync::atomic::Ordering::Relaxed), "note": "heap blocks released inside a constructor / clone that held the new key's bytes; informational (ownership is not observable from outside the constructor)"}));
    ctx.sse_vec("constructors_fixed", "each constructor x {dropped directly, cloned then dropped in both orders, boxed}", fixed, check);
}
