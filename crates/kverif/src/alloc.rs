//! Counting allocator: thread-local live/peak byte counters, largest single allocation, count of
//! large allocations, and a watch table inspected inside `dealloc` (for C20).
use std::alloc::{GlobalAlloc, Layout, System};
use std::cell::{Cell, RefCell};

pub struct Counting;
thread_local! {
    static LIVE: Cell<isize> = const { Cell::new(0) };
    static PEAK: Cell<isize> = const { Cell::new(0) };
    static LARGEST: Cell<usize> = const { Cell::new(0) };
    static BIG_COUNT: Cell<usize> = const { Cell::new(0) };
    static BIG_THRESHOLD: Cell<usize> = const { Cell::new(usize::MAX) };
    static TOTAL_ALLOCS: Cell<usize> = const { Cell::new(0) };
    // watch table: up to 64 (ptr, len) ranges; on dealloc of a block containing ptr, record whether range is all zero
    static WATCH: Cell<[(usize, usize, u8); 64]> = const { Cell::new([(0, 0, 0); 64]) };
}
/// Journal of released blocks (first JLEN bytes of each block of 16..=4096 bytes), filled inside `dealloc`/`realloc`
/// while switched on: lets a check ask "was a block holding these bytes released during that call?".
pub const JLEN: usize = 128; pub const JMAX: usize = 256;
pub struct Journal { pub n: usize, pub overflow: bool, pub len: [usize; JMAX], pub data: [[u8; JLEN]; JMAX] }
thread_local! {
    static JOURNAL_ON: Cell<bool> = const { Cell::new(false) };
    static JOURNAL: RefCell<Journal> = const { RefCell::new(Journal { n: 0, overflow: false, len: [0; JMAX], data: [[0; JLEN]; JMAX] }) };
    /// While set, byte buffers (alignment-1 requests) are handed out at odd addresses: a conforming allocator
    /// owes such a request no more than alignment 1.
    static MISALIGN: Cell<bool> = const { Cell::new(false) };
}
pub fn journal_start() { JOURNAL.with(|j| { let mut j = j.borrow_mut(); j.n = 0; j.overflow = false; }); JOURNAL_ON.with(|c| c.set(true)); }
/// Stop journaling; returns the released blocks' leading bytes.
pub fn journal_stop() -> (Vec<Vec<u8>>, bool) { JOURNAL_ON.with(|c| c.set(false)); JOURNAL.with(|j| { let j = j.borrow(); ((0..j.n).map(|i| j.data[i][..j.len[i]].to_vec()).collect(), j.overflow) }) }
pub fn misalign(on: bool) { MISALIGN.with(|c| c.set(on)); }
fn misalign_on(l: &Layout) -> bool { l.align() == 1 && l.size() > 0 && MISALIGN.try_with(|c| c.get()).unwrap_or(false) }
fn shifted(l: &Layout) -> Layout { Layout::from_size_align(l.size() + 1, 2).unwrap() }
fn journal(base: usize, size: usize) {
    if size < 16 || size > 4096 || !JOURNAL_ON.try_with(|c| c.get()).unwrap_or(false) { return; }
    let _ = JOURNAL.try_with(|j| if let Ok(mut j) = j.try_borrow_mut() { if j.n < JMAX { let n = size.min(JLEN); let i = j.n; let s = unsafe { std::slice::from_raw_parts(base as *const u8, n) }; j.data[i][..n].copy_from_slice(s); j.len[i] = n; j.n += 1; } else { j.overflow = true; } });
}
pub const W_EMPTY: u8 = 0; pub const W_ARMED: u8 = 1; pub const W_ZERO: u8 = 2; pub const W_NONZERO: u8 = 3;

unsafe impl GlobalAlloc for Counting {
    unsafe fn alloc(&self, l: Layout) -> *mut u8 {
        if misalign_on(&l) { let p = System.alloc(shifted(&l)); if p.is_null() { return p; } on_alloc(l.size()); return p.add(1); }
        let p = System.alloc(l);
        if !p.is_null() { on_alloc(l.size()); }
        p
    }
    unsafe fn alloc_zeroed(&self, l: Layout) -> *mut u8 {
        if misalign_on(&l) { let p = System.alloc_zeroed(shifted(&l)); if p.is_null() { return p; } on_alloc(l.size()); return p.add(1); }
        let p = System.alloc_zeroed(l);
        if !p.is_null() { on_alloc(l.size()); }
        p
    }
    unsafe fn dealloc(&self, p: *mut u8, l: Layout) {
        inspect(p as usize, l.size()); journal(p as usize, l.size());
        let _ = LIVE.try_with(|c| c.set(c.get() - l.size() as isize));
        // blocks handed out at an odd address came from the shifted path (the system allocator never returns one)
        if l.align() == 1 && (p as usize) & 1 == 1 { return System.dealloc(p.sub(1), shifted(&l)); }
        System.dealloc(p, l)
    }
    unsafe fn realloc(&self, p: *mut u8, l: Layout, new: usize) -> *mut u8 {
        // a shrinking/moving realloc releases the old block: inspect it first
        inspect(p as usize, l.size()); journal(p as usize, l.size());
        if l.align() == 1 && ((p as usize) & 1 == 1 || misalign_on(&l)) {
            let nl = Layout::from_size_align(new, 1).unwrap();
            let q = if misalign_on(&nl) { let b = System.alloc(shifted(&nl)); if b.is_null() { b } else { b.add(1) } } else { System.alloc(nl) };
            if q.is_null() { return q; }
            std::ptr::copy_nonoverlapping(p, q, l.size().min(new));
            let _ = LIVE.try_with(|c| c.set(c.get() - l.size() as isize)); on_alloc(new);
            if (p as usize) & 1 == 1 { System.dealloc(p.sub(1), shifted(&l)); } else { System.dealloc(p, l); }
            return q;
        }
        let q = System.realloc(p, l, new);
        if !q.is_null() { let _ = LIVE.try_with(|c| c.set(c.get() - l.size() as isize)); on_alloc(new); }
        q
    }
}
fn on_alloc(sz: usize) {
    let _ = LIVE.try_with(|c| { let v = c.get() + sz as isize; c.set(v); let _ = PEAK.try_with(|p| if v > p.get() { p.set(v) }); });
    let _ = LARGEST.try_with(|c| if sz > c.get() { c.set(sz) });
    let _ = TOTAL_ALLOCS.try_with(|c| c.set(c.get() + 1));
    let _ = BIG_THRESHOLD.try_with(|t| if sz >= t.get() { let _ = BIG_COUNT.try_with(|c| c.set(c.get() + 1)); });
}
fn inspect(base: usize, size: usize) {
    let _ = WATCH.try_with(|w| {
        let mut t = w.get(); let mut changed = false;
        for e in t.iter_mut() {
            if e.2 == W_ARMED && e.0 >= base && e.0 + e.1 <= base + size {
                let s = unsafe { std::slice::from_raw_parts(e.0 as *const u8, e.1) };
                e.2 = if s.iter().all(|&b| b == 0) { W_ZERO } else { W_NONZERO }; changed = true;
            }
        }
        if changed { w.set(t); }
    });
}
/// Start measuring on this thread: peak := live, largest := 0.
pub fn reset(big_threshold: usize) {
    LIVE.with(|l| PEAK.with(|p| p.set(l.get())));
    LARGEST.with(|c| c.set(0)); BIG_COUNT.with(|c| c.set(0)); BIG_THRESHOLD.with(|c| c.set(big_threshold)); TOTAL_ALLOCS.with(|c| c.set(0));
}
pub fn live() -> isize { LIVE.with(|c| c.get()) }
pub fn peak() -> isize { PEAK.with(|c| c.get()) }
pub fn largest() -> usize { LARGEST.with(|c| c.get()) }
pub fn big_count() -> usize { BIG_COUNT.with(|c| c.get()) }
pub fn total_allocs() -> usize { TOTAL_ALLOCS.with(|c| c.get()) }
pub fn watch_clear() { WATCH.with(|w| w.set([(0, 0, 0); 64])); }
/// Arm a watch on [ptr, ptr+len); returns slot index.
pub fn watch(ptr: usize, len: usize) -> Option<usize> {
    WATCH.with(|w| { let mut t = w.get(); for (i, e) in t.iter_mut().enumerate() { if e.2 == W_EMPTY { *e = (ptr, len, W_ARMED); w.set(t); return Some(i); } } None })
}
pub fn watch_state(i: usize) -> u8 { WATCH.with(|w| w.get()[i].2) }
pub fn watch_release(i: usize) { WATCH.with(|w| { let mut t = w.get(); t[i] = (0, 0, W_EMPTY); w.set(t); }) }
