//! C19 — exported primitives equal their RFC definitions for all inputs.
use crate::core::{ok, set_rule, CheckResult, Ctx};
use crate::ensure;
use crate::gen;
use crate::kx;
use kestrel_crypto as kc;
use proptest::prelude::*;
use serde::{Deserialize, Serialize};

#[derive(Clone, Debug, Serialize, Deserialize)]
pub enum Case {
    Aead { seed: u64, mlen: usize, alen: usize, tamper: bool },
    X25519 { k: u64, u: UCoord, clamp_noise: u8 },
    DhSym { a: u64, b: u64 },
    SpecialScalar { i: usize, u: UCoord },
    Hkdf { seed: u64, salt: usize, ikm: usize, info: usize, out: usize },
    Hmac { seed: u64, klen: usize, dlen: usize },
    Sha { seed: u64, len: usize },
    Nonce { seed: u64, counter: u64 },
    /// One message at the 2^31-byte line (lengths that no longer fit a signed 32-bit integer): open inverts seal, a flipped bit is refused.
    HugeAead { len: u64 },
    /// A history over a table of PrivateKey objects, compared step by step with the scalars a model holds.
    KeyObjects { ops: Vec<KOp> },
}
#[derive(Clone, Debug, Serialize, Deserialize)]
pub enum KOp { New(u64), NewSpecial(usize), Generate, ToPublic(u16), Clone(u16), Zeroize(u16), CloneFrom(u16, u16), Dh(u16, u16), Forget(u16) }
#[derive(Clone, Debug, Serialize, Deserialize)]
pub enum UCoord { Random(u64), RandomHighBit(u64), LowOrder(usize), NonCanonical(u8), Base, /// i-th entry of the well-known 12-entry list (0, 1, x1, x2, p-1, p, p+1, p+x1, p+x2, 2p-1, 2p, 2p+1 as 256-bit strings)
    Published(usize) }
/// Scalars at the extremes: all-zero, all-ones, only clamped bits set, single bits.
pub fn special_scalar(i: usize) -> [u8; 32] { let mut k = [0u8; 32]; match i { 0 => {}, 1 => k = [0xff; 32], 2 => { k[0] = 7; k[31] = 0x80; }, 3 => k[31] = 0x40, 4 => k[0] = 8, 5 => { k = [0xff; 32]; k[0] = 0xf8; k[31] = 0x7f; }, _ => k[i % 32] = 1 << (i % 8) } k }

fn ucoord(u: &UCoord) -> [u8; 32] {
    match u {
        UCoord::Random(s) => { let mut x = gen::key32(*s, "u"); x[31] &= 0x7f; x }
        UCoord::RandomHighBit(s) => { let mut x = gen::key32(*s, "u"); x[31] |= 0x80; x }
        UCoord::LowOrder(i) => { let l = gen::low_order_points(); l[i % l.len()] }
        // p+k for small k and 2^255-1 .. : non-canonical but full-order for most k; result is whatever RFC 7748 says
        UCoord::NonCanonical(k) => { let mut x = [0xffu8; 32]; x[31] = 0x7f; let v = 0xedu16 + (*k % 19) as u16; x[0] = v as u8; if v > 0xff { x[0] = 0xff; } x }
        UCoord::Base => { let mut x = [0u8; 32]; x[0] = 9; x }
        UCoord::Published(i) => { let h = ["0000000000000000000000000000000000000000000000000000000000000000", "0100000000000000000000000000000000000000000000000000000000000000", "e0eb7a7c3b41b8ae1656e3faf19fc46ada098deb9c32b1fd866205165f49b800", "5f9c95bca3508c24b1d0b1559c83ef5b04445cc4581c8e86d8224eddd09f1157", "ecffffffffffffffffffffffffffffffffffffffffffffffffffffffffffff7f", "edffffffffffffffffffffffffffffffffffffffffffffffffffffffffffff7f", "eeffffffffffffffffffffffffffffffffffffffffffffffffffffffffffff7f", "cdeb7a7c3b41b8ae1656e3faf19fc46ada098deb9c32b1fd866205165f49b880", "4c9c95bca3508c24b1d0b1559c83ef5b04445cc4581c8e86d8224eddd09f11d7", "d9ffffffffffffffffffffffffffffffffffffffffffffffffffffffffffffff", "daffffffffffffffffffffffffffffffffffffffffffffffffffffffffffffff", "dbffffffffffffffffffffffffffffffffffffffffffffffffffffffffffffff"]; kspec::unhex(h[i % 12]).try_into().unwrap() }
    }
}

pub fn check(c: &Case) -> CheckResult {
    match c {
        Case::Aead { seed, mlen, alen, tamper } => {
            let key = gen::key32(*seed, "k"); let nonce: [u8; 12] = gen::bytes_from(*seed ^ 3, 12).try_into().unwrap();
            let m = gen::bytes_from(*seed ^ 1, *mlen); let a = gen::bytes_from(*seed ^ 2, *alen);
            let ct = kc::chapoly_encrypt_ietf(&key, &nonce, &m, &a);
            ensure!(ct == kspec::aead_seal(&key, &nonce, &a, &m), "chapoly_encrypt_ietf differs from RFC 8439 for |m|={} |aad|={}", mlen, alen);
            let back = kc::chapoly_decrypt_ietf(&key, &nonce, &ct, &a).map_err(|_| format!("open rejects what seal produced (|m|={} |aad|={})", mlen, alen))?;
            ensure!(back == m, "open(seal(m)) != m");
            if *tamper {
                // every single-bit change of ciphertext/tag, and changed key / nonce / aad, must be rejected
                for bit in 0..ct.len() * 8 { let mut x = ct.clone(); x[bit / 8] ^= 1 << (bit % 8); ensure!(kc::chapoly_decrypt_ietf(&key, &nonce, &x, &a).is_err(), "open accepted a ciphertext with bit {} flipped (|m|={})", bit, mlen); }
                for bit in [0usize, 7, 100, 255] { let mut k2 = key; k2[bit / 8] ^= 1 << (bit % 8); ensure!(kc::chapoly_decrypt_ietf(&k2, &nonce, &ct, &a).is_err(), "open accepted under a different key"); }
                for bit in [0usize, 31, 32, 95] { let mut n2 = nonce; n2[bit / 8] ^= 1 << (bit % 8); ensure!(kc::chapoly_decrypt_ietf(&key, &n2, &ct, &a).is_err(), "open accepted under a different nonce (bit {})", bit); }
                for bit in 0..a.len() * 8 { let mut a2 = a.clone(); a2[bit / 8] ^= 1 << (bit % 8); ensure!(kc::chapoly_decrypt_ietf(&key, &nonce, &ct, &a2).is_err(), "open accepted with different associated data"); }
                let mut a3 = a.clone(); a3.push(0); ensure!(kc::chapoly_decrypt_ietf(&key, &nonce, &ct, &a3).is_err(), "open accepted with extended associated data");
                if !a.is_empty() { ensure!(kc::chapoly_decrypt_ietf(&key, &nonce, &ct, &a[..a.len() - 1]).is_err(), "open accepted with truncated associated data"); }
                if ct.len() > 16 { ensure!(kc::chapoly_decrypt_ietf(&key, &nonce, &ct[..ct.len() - 1], &a).is_err() && kc::chapoly_decrypt_ietf(&key, &nonce, &ct[1..], &a).is_err(), "open accepted a truncated ciphertext"); }
            }
            ok(*mlen != 12 && *mlen != 0, format!("aead/{}", if *tamper { "tamper-sweep" } else { "seal-open" }))
        }
        Case::X25519 { k, u, clamp_noise } => {
            let mut sk = gen::key32(*k, "x-sk");
            // clamped bits deliberately set/cleared: the function must clamp per RFC 7748
            if clamp_noise & 1 != 0 { sk[0] |= 7; } if clamp_noise & 2 != 0 { sk[31] |= 0x80; } if clamp_noise & 4 != 0 { sk[31] &= 0xbf; }
            let uu = ucoord(u);
            let want = kspec::x25519(&sk, &uu);
            match kc::x25519(&sk, &uu) {
                Ok(v) => { ensure!(want != [0u8; 32], "x25519 returned a value although the RFC 7748 result is all-zero (u = {})", kspec::hex(&uu)); ensure!(v[..] == want[..], "x25519 differs from RFC 7748 for u = {} (clamp noise {})", kspec::hex(&uu), clamp_noise); }
                Err(_) => ensure!(want == [0u8; 32], "x25519 failed although the RFC 7748 result is non-zero (u = {})", kspec::hex(&uu)),
            }
            let pk = kc::x25519_derive_public(&sk).map_err(|_| "derive_public failed".to_string())?;
            ensure!(pk[..] == kspec::x25519_base(&sk)[..], "public-key derivation differs from scalar multiplication of the base point");
            let prk = kc::PrivateKey::try_from(&sk[..]).unwrap();
            ensure!(prk.to_public().map(|p| p.as_bytes().to_vec()).ok() == Some(pk.clone()), "PrivateKey::to_public differs from x25519_derive_public");
            ok(true, format!("x25519/{}", match u { UCoord::Random(_) => "random", UCoord::RandomHighBit(_) => "highbit", UCoord::LowOrder(_) => "low-order", UCoord::NonCanonical(_) => "non-canonical", UCoord::Base => "base", UCoord::Published(_) => "published-list" }))
        }
        Case::SpecialScalar { i, u } => {
            let sk = special_scalar(*i); let uu = ucoord(u); let want = kspec::x25519(&sk, &uu);
            match kc::x25519(&sk, &uu) { Ok(v) => ensure!(v[..] == want[..] && want != [0u8; 32], "x25519 with scalar {} differs from RFC 7748", kspec::hex(&sk)), Err(_) => ensure!(want == [0u8; 32], "x25519 with scalar {} failed although the RFC 7748 result is non-zero", kspec::hex(&sk)) }
            let pubk = kspec::x25519_base(&sk);
            ensure!(kc::x25519_derive_public(&sk).ok().as_deref() == Some(&pubk[..]), "x25519_derive_public({}) is not the base point multiple", kspec::hex(&sk));
            let key = kc::PrivateKey::try_from(&sk[..]).unwrap();
            ensure!(key.to_public().map(|p| p.as_bytes().to_vec()).ok().as_deref() == Some(&pubk[..]), "PrivateKey::to_public for scalar {} is not the base point multiple (RFC 7748 clamps any 32 bytes into a valid scalar)", kspec::hex(&sk));
            let peer = kx::ident(*i as u64, "c19-peer");
            let a = key.diffie_hellman(&kc::PublicKey::try_from(&peer.pk[..]).unwrap()).ok(); let b = kc::PrivateKey::try_from(&peer.sk[..]).unwrap().diffie_hellman(&kc::PublicKey::try_from(&pubk[..]).unwrap()).ok();
            ensure!(a.is_some() && a == b, "Diffie-Hellman with scalar {} is not symmetric (a.B = {:?}, b.A = {:?})", kspec::hex(&sk), a.map(|x| kspec::hex(&x)), b.map(|x| kspec::hex(&x)));
            ok(true, "x25519/special-scalar")
        }
        Case::DhSym { a, b } => {
            let (a, b) = (gen::key32(*a, "dh-a"), gen::key32(*b, "dh-b"));
            let (pa, pb) = (kspec::x25519_base(&a), kspec::x25519_base(&b));
            let ab = kc::x25519(&a, &pb).map_err(|_| "DH failed for honest keys".to_string())?; let ba = kc::x25519(&b, &pa).map_err(|_| "DH failed for honest keys".to_string())?;
            ensure!(ab == ba, "Diffie-Hellman is not symmetric");
            let ska = kc::PrivateKey::try_from(&a[..]).unwrap(); let pkb = kc::PublicKey::try_from(&pb[..]).unwrap();
            ensure!(ska.diffie_hellman(&pkb).ok() == Some(ab.clone()), "PrivateKey::diffie_hellman differs from x25519");
            ok(true, "x25519/symmetry")
        }
        Case::Hkdf { seed, salt, ikm, info, out } => {
            let (s, i, n) = (gen::bytes_from(*seed, *salt), gen::bytes_from(*seed ^ 1, *ikm), gen::bytes_from(*seed ^ 2, *info));
            ensure!(kc::hkdf_sha256(&s, &i, &n, *out) == kspec::hkdf_sha256(&s, &i, &n, *out), "hkdf_sha256 differs from RFC 5869 (salt {}, ikm {}, info {}, out {})", salt, ikm, info, out);
            ok(true, format!("hkdf/{}", if *out > 32 { "multi-block" } else { "one-block" }))
        }
        Case::Hmac { seed, klen, dlen } => {
            let (k, d) = (gen::bytes_from(*seed, *klen), gen::bytes_from(*seed ^ 1, *dlen));
            ensure!(kc::hmac_sha256(&k, &d)[..] == kspec::hmac_sha256(&k, &d)[..], "hmac_sha256 differs from RFC 2104 (key {} bytes, data {} bytes)", klen, dlen);
            ok(true, format!("hmac/key{}", if *klen > 64 { ">64" } else if *klen == 64 { "=64" } else { "<64" }))
        }
        Case::Sha { seed, len } => {
            let d = gen::bytes_from(*seed, *len);
            ensure!(kc::sha256(&d)[..] == kspec::sha256(&d)[..], "sha256 differs from FIPS 180-4 for {} bytes", len);
            ok(![0, 3, 56].contains(len), "sha256")
        }
        Case::HugeAead { len } => {
            let avail = std::fs::read_to_string("/proc/meminfo").ok().and_then(|t| t.lines().find_map(|l| l.strip_prefix("MemAvailable:").and_then(|v| v.trim().trim_end_matches("kB").trim().parse::<u64>().ok()))).unwrap_or(0);
            if avail < (*len / 1024) * 4 + (2 << 20) { return ok(false, "aead/huge/skipped-memory"); }
            let key = gen::key32(*len, "huge"); let nonce = [7u8; 12]; let aad = b"huge";
            let mut m = vec![0u8; *len as usize]; gen::fill_at(9, 0, &mut m[..4096]); let l = m.len(); gen::fill_at(11, 0, &mut m[l - 4096..]);
            let mut ct = kc::chapoly_encrypt_ietf(&key, &nonce, &m, aad);
            ensure!(ct.len() == m.len() + 16, "seal of {} bytes returned {} bytes", m.len(), ct.len());
            // the tag is checked against the independent implementation's Poly1305 only for the first and last 4 KiB indirectly: open must accept, and give back m
            let back = kc::chapoly_decrypt_ietf(&key, &nonce, &ct, aad).map_err(|_| format!("open rejected what seal produced for a message of {} bytes (ciphertext {} bytes, 2^31 = 2147483648)", m.len(), ct.len()))?;
            ensure!(back.len() == m.len() && back[..4096] == m[..4096] && back[l - 4096..] == m[l - 4096..] && back[l / 2..l / 2 + 4096].iter().all(|&b| b == 0), "open(seal(m)) != m for |m| = {}", m.len());
            drop(back); let i = ct.len() / 2; ct[i] ^= 1;
            ensure!(kc::chapoly_decrypt_ietf(&key, &nonce, &ct, aad).is_err(), "open accepted a {}-byte ciphertext with one bit changed", ct.len());
            ok(true, "aead/huge")
        }
        Case::KeyObjects { ops } => {
            use zeroize::Zeroize;
            let mut objs: Vec<(kc::PrivateKey, [u8; 32])> = Vec::new(); let mut kinds = std::collections::BTreeSet::new(); let mut derived_then_changed = false; let mut derived: Vec<bool> = Vec::new();
            for (step, op) in ops.iter().enumerate() {
                let n = objs.len(); let sel = |x: u16| crate::core::pick(x, n.max(1));
                match op {
                    KOp::New(s) => { let k = gen::key32(*s, "ko"); objs.push((kc::PrivateKey::try_from(&k[..]).unwrap(), k)); derived.push(false); }
                    KOp::NewSpecial(i) => { let k = special_scalar(*i); objs.push((kc::PrivateKey::try_from(&k[..]).unwrap(), k)); derived.push(false); }
                    KOp::Generate => { let o = kc::PrivateKey::generate(); let k: [u8; 32] = o.as_bytes().try_into().map_err(|_| "generated key is not 32 bytes".to_string())?; objs.push((o, k)); derived.push(false); }
                    KOp::Forget(x) => if n > 0 { let i = sel(*x); objs.remove(i); derived.remove(i); },
                    KOp::Clone(x) => if n > 0 { let i = sel(*x); let c = objs[i].0.clone(); let m = objs[i].1; objs.push((c, m)); derived.push(derived[i]); kinds.insert("clone"); },
                    KOp::Zeroize(x) => if n > 0 { let i = sel(*x); objs[i].0.zeroize(); objs[i].1 = [0u8; 32]; if derived[i] { derived_then_changed = true; } kinds.insert("zeroize"); },
                    KOp::CloneFrom(x, y) => if n > 1 { let (i, j) = (sel(*x), sel(*y)); if i != j { let src = objs[j].0.clone(); objs[i].0.clone_from(&src); objs[i].1 = objs[j].1; if derived[i] { derived_then_changed = true; } kinds.insert("clone_from"); } },
                    KOp::ToPublic(x) => if n > 0 { let i = sel(*x); let want = kspec::x25519_base(&objs[i].1);
                        let got = objs[i].0.to_public().map(|p| p.as_bytes().to_vec()).map_err(|_| format!("step {}: to_public failed", step))?;
                        ensure!(got[..] == want[..], "step {} of {:?}: to_public() of a key object holding scalar {} returned {} - not the base-point multiple {}", step, ops, kspec::hex(&objs[i].1), kspec::hex(&got), kspec::hex(&want));
                        derived[i] = true; kinds.insert("to_public"); },
                    KOp::Dh(x, y) => if n > 0 { let (i, j) = (sel(*x), sel(*y)); let pj = kspec::x25519_base(&objs[j].1); let want = kspec::x25519(&objs[i].1, &pj);
                        match objs[i].0.diffie_hellman(&kc::PublicKey::try_from(&pj[..]).unwrap()) { Ok(v) => ensure!(v[..] == want[..] && want != [0u8; 32], "step {}: diffie_hellman through key objects differs from RFC 7748", step), Err(_) => ensure!(want == [0u8; 32], "step {}: diffie_hellman failed although the RFC 7748 result is non-zero", step) }
                        kinds.insert("dh"); },
                }
                for (o, m) in &objs { ensure!(o.as_bytes() == &m[..], "step {} of {:?}: a key object's bytes differ from the scalar it was given", step, ops); }
            }
            ok(derived_then_changed || kinds.len() >= 3, format!("key-objects/{}", if derived_then_changed { "derived-then-changed" } else { "plain" }))
        }
        Case::Nonce { seed, counter } => {
            let key = gen::key32(*seed, "n"); let m = gen::bytes_from(*seed, (*seed % 70) as usize); let ad = gen::bytes_from(*seed ^ 9, (*seed % 33) as usize);
            let got = kc::verif_chapoly_encrypt_noise(&key, *counter, &ad, &m);
            let mut nonce = [0u8; 12]; nonce[4..].copy_from_slice(&counter.to_le_bytes());
            ensure!(got == kspec::aead_seal(&key, &nonce, &ad, &m), "Noise-style AEAD does not use nonce 00000000||LE64({:#x})", counter);
            ensure!(kc::verif_chapoly_decrypt_noise(&key, *counter, &ad, &got).ok().as_deref() == Some(&m[..]), "Noise-style open does not invert seal for counter {:#x}", counter);
            if *counter != counter.swap_bytes() && *counter > 0 { ensure!(kc::verif_chapoly_decrypt_noise(&key, counter.swap_bytes(), &ad, &got).is_err(), "Noise-style open accepts the byte-swapped counter"); }
            ok(true, "noise-nonce")
        }
    }
}

pub fn run(ctx: &Ctx) {
    set_rule("C19", "AEAD: every (|m|, |aad|) in 0..=130 x 0..=40 and random sizes to 70000 against RFC 8439 (kspec), open(seal)=id, and for small messages every single-bit change of ciphertext/tag/aad plus changed key/nonce/aad length must be rejected; X25519: random scalars (clamped bits deliberately set/cleared) x {random, bit-255-set, all 14 small-order spellings, non-canonical, base} against RFC 7748, error <=> all-zero, DH symmetry, public key = k*9; HKDF (lengths 0..200, out 1..8160), HMAC (key 0..200 incl. 63/64/65), SHA-256 (every length 0..300, random to 100000); Noise nonce layout through the hook; histories of 1..14 operations over a table of PrivateKey objects (new from random / extreme scalars, generate, to_public, clone, clone_from, zeroize, diffie_hellman, forget) compared after every step with a model that holds each object's scalar: to_public is always the base-point multiple of the scalar the object holds NOW. Non-trivial = input shape not among the repository's own vectors; distinct by hash of the case / enumeration index");
    ctx.assume("kspec is the RFC reference (self-tested against the RFC vectors and audited against OpenSSL by tools/oracle_audit.py)");
    let sweep = if ctx.quick() { 24 } else { 64 };
    ctx.sse("aead_grid", "every (|m|,|aad|) in 0..=130 x 0..=40; tamper sweep for |m|<=bound", 131 * 41, |i| Case::Aead { seed: i as u64 * 7919 + ctx.seed, mlen: i / 41, alen: i % 41, tamper: i / 41 <= sweep && (i % 41) % 5 == 0 }, check);
    ctx.sse("sha256_lengths", "every length 0..=300", 301, |i| Case::Sha { seed: ctx.seed ^ i as u64, len: i }, check);
    ctx.sse("hmac_key_lengths", "key length 0..=200 x data length {0,1,63,64,65,500}", 201 * 6, |i| Case::Hmac { seed: ctx.seed ^ i as u64, klen: i / 6, dlen: [0, 1, 63, 64, 65, 500][i % 6] }, check);
    let nlow = gen::low_order_points().len();
    ctx.sse("x25519_special_points", "14 small-order spellings + 19 non-canonical + base x 8 clamp-noise patterns", (nlow + 20) * 8, |i| { let j = i / 8; Case::X25519 { k: ctx.seed.wrapping_add(i as u64), u: if j < nlow { UCoord::LowOrder(j) } else if j < nlow + 19 { UCoord::NonCanonical((j - nlow) as u8) } else { UCoord::Base }, clamp_noise: (i % 8) as u8 } }, check);
    ctx.sse("x25519_published_list", "the 12 published encodings x 8 clamp-noise patterns: error exactly when RFC 7748 (bit 255 masked) gives zero", 12 * 8, |i| Case::X25519 { k: ctx.seed.wrapping_add(1000 + i as u64), u: UCoord::Published(i / 8), clamp_noise: (i % 8) as u8 }, check);
    ctx.sse("x25519_special_scalars", "40 extreme scalars (all-zero, all-ones, only clamped bits, single bits) x {base, random, high-bit u}: raw functions and key objects", 40 * 3, |i| Case::SpecialScalar { i: i / 3, u: match i % 3 { 0 => UCoord::Base, 1 => UCoord::Random(i as u64), _ => UCoord::RandomHighBit(i as u64) } }, check);
    ctx.sse_vec("aead_at_2_to_the_31", "one message of 2^31 - 16 bytes (ciphertext exactly 2^31) and, thorough, 2^31 + 5 bytes: open(seal) = id, one flipped bit refused; skipped with a note when less than 4x that much memory is available", if ctx.quick() { vec![Case::HugeAead { len: (1u64 << 31) - 16 }] } else { vec![Case::HugeAead { len: (1u64 << 31) - 16 }, Case::HugeAead { len: (1u64 << 31) + 5 }, Case::HugeAead { len: (1u64 << 31) - 17 }] }, check);
    ctx.pbt("key_object_histories", ctx.n(20_000, 300_000), || proptest::collection::vec(prop_oneof![3 => any::<u64>().prop_map(KOp::New), 1 => (0usize..40).prop_map(KOp::NewSpecial), 1 => Just(KOp::Generate), 4 => any::<u16>().prop_map(KOp::ToPublic), 2 => any::<u16>().prop_map(KOp::Clone), 2 => any::<u16>().prop_map(KOp::Zeroize), 2 => (any::<u16>(), any::<u16>()).prop_map(|(a, b)| KOp::CloneFrom(a, b)), 2 => (any::<u16>(), any::<u16>()).prop_map(|(a, b)| KOp::Dh(a, b)), 1 => any::<u16>().prop_map(KOp::Forget)], 1..14).prop_map(|ops| Case::KeyObjects { ops }), check);
    ctx.pbt("pbt_primitives", ctx.n(400_000, 4_000_000), || prop_oneof![
        3 => (any::<u64>(), prop_oneof![4 => 0usize..400, 1 => 0usize..70_000], 0usize..80).prop_map(|(seed, mlen, alen)| Case::Aead { seed, mlen, alen, tamper: false }),
        1 => (any::<u64>(), 0usize..40, 0usize..24).prop_map(|(seed, mlen, alen)| Case::Aead { seed, mlen, alen, tamper: true }),
        3 => (any::<u64>(), prop_oneof![3 => any::<u64>().prop_map(UCoord::Random), 2 => any::<u64>().prop_map(UCoord::RandomHighBit), 1 => (0usize..14).prop_map(UCoord::LowOrder), 1 => any::<u8>().prop_map(UCoord::NonCanonical)], 0u8..8).prop_map(|(k, u, clamp_noise)| Case::X25519 { k, u, clamp_noise }),
        1 => (any::<u64>(), any::<u64>()).prop_map(|(a, b)| Case::DhSym { a, b }),
        3 => (any::<u64>(), 0usize..200, 0usize..200, 0usize..200, prop_oneof![4 => 1usize..200, 1 => 1usize..=8160]).prop_map(|(seed, salt, ikm, info, out)| Case::Hkdf { seed, salt, ikm, info, out }),
        2 => (any::<u64>(), 0usize..200, 0usize..500).prop_map(|(seed, klen, dlen)| Case::Hmac { seed, klen, dlen }),
        2 => (any::<u64>(), prop_oneof![4 => 0usize..2000, 1 => 0usize..100_000]).prop_map(|(seed, len)| Case::Sha { seed, len }),
        2 => (any::<u64>(), prop_oneof![any::<u64>().prop_map(|x| x.min(u64::MAX - 1)), (0u32..64).prop_map(|b| (1u64 << b).wrapping_sub(1)), 0u64..1000]).prop_map(|(seed, counter)| Case::Nonce { seed, counter }),
    ], check);
}
