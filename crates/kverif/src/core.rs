//! Check engine: seeded proptest runners on worker threads, small-scope exhaustive enumeration,
//! replay files, known findings, evidence.
use proptest::strategy::Strategy;
use proptest::test_runner::{Config, RngAlgorithm, TestCaseError, TestError, TestRng, TestRunner};
use serde::{de::DeserializeOwned, Serialize};
use serde_json::{json, Value};
use std::cell::RefCell;
use std::collections::{BTreeMap, HashSet};
use std::panic::{catch_unwind, AssertUnwindSafe};
use std::path::PathBuf;
use std::sync::atomic::{AtomicBool, AtomicU64, AtomicUsize, Ordering};
use std::sync::Mutex;
use std::time::Instant;

#[derive(Clone, Copy, PartialEq, Debug)]
pub enum Tier { Quick, Thorough }

/// What a check function reports for a case on which the property held.
pub struct Info { pub nt: bool, pub class: String }
pub type CheckResult = Result<Info, String>;
pub fn ok(nt: bool, class: impl Into<String>) -> CheckResult { Ok(Info { nt, class: class.into() }) }
#[macro_export]
macro_rules! ensure {
    ($c:expr, $($a:tt)*) => { if !($c) { return Err(format!($($a)*)); } };
}

thread_local! { static LAST_PANIC: RefCell<Option<String>> = const { RefCell::new(None) }; static IN_GUARD: std::cell::Cell<u32> = const { std::cell::Cell::new(0) }; }
pub fn install_panic_hook() {
    std::panic::set_hook(Box::new(|pi| {
        let msg = if let Some(s) = pi.payload().downcast_ref::<&str>() { s.to_string() } else if let Some(s) = pi.payload().downcast_ref::<String>() { s.clone() } else { "<non-string panic>".into() };
        let loc = pi.location().map(|l| format!("{}:{}", l.file(), l.line())).unwrap_or_default();
        if IN_GUARD.with(|g| g.get()) == 0 { eprintln!("kverif: panic outside a guarded case: {} at {}", msg, loc); }
        LAST_PANIC.with(|p| *p.borrow_mut() = Some(format!("panic: {} at {}", msg, loc)));
    }));
}
/// Run `f`, turning a panic into Err("panic: <message> at <file>:<line>").
pub fn guard<T>(f: impl FnOnce() -> T) -> Result<T, String> {
    IN_GUARD.with(|g| g.set(g.get() + 1));
    let r = catch_unwind(AssertUnwindSafe(f));
    IN_GUARD.with(|g| g.set(g.get() - 1));
    match r {
        Ok(v) => Ok(v),
        Err(_) => Err(LAST_PANIC.with(|p| p.borrow_mut().take()).unwrap_or_else(|| "panic: <unknown>".into())),
    }
}

pub fn fnv64(b: &[u8]) -> u64 { let mut h = 0xcbf29ce484222325u64; for &x in b { h ^= x as u64; h = h.wrapping_mul(0x100000001b3); } h ^ (h >> 29) }

#[derive(Default)]
struct SubStat { wall_s: f64, evaluations: u64, nontrivial: u64, classes: BTreeMap<String, u64>, samples: Vec<Value>, exhaustive: Option<bool>, space: Option<String>, replayed: u64, kind: &'static str, excluded_known: u64 }

#[derive(Clone)]
pub struct Known { pub property: String, pub signature: String, pub status: String, pub what: String }

pub struct Ctx {
    pub id: String,
    pub tier: Tier,
    pub seed: u64,
    pub jobs: usize,
    pub root: PathBuf,
    pub replay: Option<(String, Value)>,
    start: Instant,
    stats: Mutex<BTreeMap<String, SubStat>>,
    distinct: Mutex<HashSet<u64>>,
    violations: Mutex<Vec<(String, String)>>, // (replay path, message)
    known: Vec<Known>,
    known_fired: Mutex<BTreeMap<String, u64>>,
    pub notes: Mutex<Vec<String>>,
    pub extra: Mutex<BTreeMap<String, Value>>,
    pub assumptions: Mutex<Vec<String>>,
    pub level: Mutex<&'static str>,
    replay_outcome: Mutex<Option<Result<String, String>>>,
    pub inconclusive: Mutex<Option<String>>,
    /// shrink budget for the next pbt() calls (expensive cases set it low)
    pub shrink_iters: std::sync::atomic::AtomicU32,
}

impl Ctx {
    pub fn new(id: &str, tier: Tier, seed: u64, root: PathBuf, replay: Option<(String, Value)>) -> Ctx {
        let jobs = std::env::var("VERIF_JOBS").ok().and_then(|s| s.parse().ok()).unwrap_or_else(|| std::thread::available_parallelism().map(|n| n.get()).unwrap_or(8)).max(1);
        let known = load_known(&root, id);
        Ctx { id: id.into(), tier, seed, jobs, root, replay, start: Instant::now(), stats: Default::default(), distinct: Default::default(), violations: Default::default(), known, known_fired: Default::default(), notes: Default::default(), extra: Default::default(), assumptions: Default::default(), level: Mutex::new("exploration"), replay_outcome: Mutex::new(None), inconclusive: Mutex::new(None), shrink_iters: std::sync::atomic::AtomicU32::new(3000) }
    }
    pub fn quick(&self) -> bool { self.tier == Tier::Quick }
    /// Pick a count by tier.
    pub fn n(&self, quick: u64, thorough: u64) -> u64 { if self.quick() { quick } else { thorough } }
    pub fn note(&self, s: impl Into<String>) { self.notes.lock().unwrap().push(s.into()); }
    pub fn assume(&self, s: impl Into<String>) { self.assumptions.lock().unwrap().push(s.into()); }
    pub fn put(&self, k: &str, v: Value) { self.extra.lock().unwrap().insert(k.into(), v); }
    pub fn set_inconclusive(&self, m: impl Into<String>) { *self.inconclusive.lock().unwrap() = Some(m.into()); }
    pub fn violated(&self) -> bool { !self.violations.lock().unwrap().is_empty() }
    pub fn derive_seed(&self, sub: &str, worker: usize) -> [u8; 32] {
        kspec::sha256(format!("kverif|{}|{}|{}|{}", self.seed, self.id, sub, worker).as_bytes())
    }

    fn known_match(&self, msg: &str) -> Option<&Known> {
        self.known.iter().find(|k| k.status == "open" && msg.contains(&k.signature))
    }

    fn record(&self, sub: &str, evals: u64, fps: &[u64], classes: BTreeMap<String, u64>, nt: u64, samples: Vec<Value>, excluded: u64) {
        let mut st = self.stats.lock().unwrap();
        let e = st.entry(sub.to_string()).or_default();
        e.evaluations += evals; e.nontrivial += nt; e.excluded_known += excluded;
        for (k, v) in classes { *e.classes.entry(k).or_default() += v; }
        for s in samples { if e.samples.len() < 4 { e.samples.push(clip(s)); } }
        drop(st);
        let mut d = self.distinct.lock().unwrap();
        let salt = fnv64(sub.as_bytes());
        for f in fps { d.insert(f ^ salt); }
    }

    fn report_violation<C: Serialize>(&self, sub: &str, case: &C, msg: &str, existing: Option<&str>) {
        let path = match existing { Some(p) => p.to_string(), None => {
            let body = json!({"property": self.id, "sub": sub, "case": case, "message": msg});
            let txt = serde_json::to_string_pretty(&body).unwrap();
            let dir = self.root.join("replays").join(&self.id);
            let _ = std::fs::create_dir_all(&dir);
            let p = dir.join(format!("{}-{:016x}.json", sub, fnv64(serde_json::to_string(&json!({"s": sub, "c": case})).unwrap().as_bytes())));
            let _ = std::fs::write(&p, txt);
            p.to_string_lossy().into_owned() } };
        eprintln!("[{}:{}] violation: {}", self.id, sub, msg);
        let mut v = self.violations.lock().unwrap();
        // one report per sub-check: several workers may hit the same defect
        if existing.is_none() && v.iter().any(|(p, _)| p.contains(&format!("/{}-", sub))) { let _ = std::fs::remove_file(&path); return; }
        v.push((path, msg.to_string()));
    }

    /// Returns true if the failure is a listed open finding (then it is not a violation).
    fn handle_failure<C: Serialize>(&self, sub: &str, case: &C, msg: &str, existing: Option<&str>) -> bool {
        if let Some(k) = self.known_match(msg) {
            let mut kf = self.known_fired.lock().unwrap();
            *kf.entry(k.signature.clone()).or_default() += 1;
            return true;
        }
        self.report_violation(sub, case, msg, existing);
        false
    }

    fn run_saved<C: Serialize + DeserializeOwned>(&self, sub: &str, check: &(impl Fn(&C) -> CheckResult + Sync)) -> bool {
        // replay mode: only the named sub runs, once.
        if let Some((rsub, val)) = &self.replay {
            if rsub == sub {
                let out = match serde_json::from_value::<C>(val.clone()) {
                    Err(e) => Err(format!("replay file does not deserialise for {}: {}", sub, e)),
                    Ok(c) => match guard(|| check(&c)).and_then(|r| r) { Ok(i) => Ok(format!("held (class {})", i.class)), Err(m) => Err(m) },
                };
                *self.replay_outcome.lock().unwrap() = Some(out);
            }
            return true; // skip generation
        }
        // normal mode: saved replays for this sub run first
        let dir = self.root.join("replays").join(&self.id);
        let mut n = 0;
        if let Ok(rd) = std::fs::read_dir(&dir) {
            let mut files: Vec<_> = rd.filter_map(|e| e.ok()).map(|e| e.path()).filter(|p| p.extension().map(|x| x == "json").unwrap_or(false)).collect();
            files.sort();
            for p in files {
                let Ok(txt) = std::fs::read_to_string(&p) else { continue };
                let Ok(v) = serde_json::from_str::<Value>(&txt) else { continue };
                if v.get("sub").and_then(|s| s.as_str()) != Some(sub) { continue; }
                let Ok(c) = serde_json::from_value::<C>(v["case"].clone()) else { self.note(format!("replay {} no longer deserialises; ignored", p.display())); continue };
                n += 1;
                if let Err(m) = guard(|| check(&c)).and_then(|r| r) { self.handle_failure(sub, &c, &m, Some(&p.to_string_lossy())); }
            }
        }
        if n > 0 { let mut st = self.stats.lock().unwrap(); let e = st.entry(sub.to_string()).or_default(); e.replayed += n; e.evaluations += n; }
        false
    }

    /// Property-based search: `cases` generated cases split over worker threads, each a seeded
    /// proptest runner; the first failure is shrunk and saved.
    pub fn pbt<C, S>(&self, sub: &str, cases: u64, strat: impl Fn() -> S + Sync, check: impl Fn(&C) -> CheckResult + Sync)
    where C: std::fmt::Debug + Serialize + DeserializeOwned + Clone, S: Strategy<Value = C> {
        if self.run_saved(sub, &check) { return; }
        let _timer = Timer { ctx: self, sub: sub.to_string(), t0: Instant::now() };
        { self.stats.lock().unwrap().entry(sub.to_string()).or_default().kind = "pbt"; }
        let workers = self.jobs.min(cases.max(1) as usize).max(1);
        let stop = AtomicBool::new(false);
        std::thread::scope(|sc| {
            for w in 0..workers {
                let (stop, strat, check) = (&stop, &strat, &check);
                sc.spawn(move || {
                    let my = cases / workers as u64 + if (w as u64) < cases % workers as u64 { 1 } else { 0 };
                    if my == 0 { return; }
                    let cfg = Config { cases: my as u32, failure_persistence: None, max_shrink_iters: self.shrink_iters.load(Ordering::Relaxed), max_global_rejects: 65536, verbose: 0, ..Config::default() };
                    let mut runner = TestRunner::new_with_rng(cfg, TestRng::from_seed(RngAlgorithm::ChaCha, &self.derive_seed(sub, w)));
                    let failed = std::cell::Cell::new(false);
                    let evals = std::cell::Cell::new(0u64); let nt = std::cell::Cell::new(0u64); let excluded = std::cell::Cell::new(0u64);
                    let fps = RefCell::new(Vec::<u64>::new()); let classes = RefCell::new(BTreeMap::<String, u64>::new()); let samples = RefCell::new(Vec::<Value>::new());
                    let shrink_started = std::cell::Cell::new(None::<Instant>);
                    let res = runner.run(&strat(), |c: C| {
                        if stop.load(Ordering::Relaxed) && !failed.get() { return Ok(()); }
                        // shrinking is bounded by wall time as well as by iterations: past the budget every further
                        // candidate counts as passing, so proptest settles on the smallest failure found so far
                        if let Some(t) = shrink_started.get() { if t.elapsed().as_secs() >= SHRINK_SECS { return Ok(()); } }
                        trace_set(w, sub, &c);
                        let r = guard(|| check(&c)).and_then(|r| r);
                        trace_clear(w);
                        match r {
                            Ok(i) => { if !failed.get() {
                                evals.set(evals.get() + 1);
                                *classes.borrow_mut().entry(i.class.clone()).or_default() += 1;
                                if i.nt { nt.set(nt.get() + 1); fps.borrow_mut().push(fnv64(&serde_json::to_vec(&c).unwrap_or_default()));
                                    if samples.borrow().len() < 2 && w < 2 { samples.borrow_mut().push(json!({"case": c, "class": i.class})); } }
                                } Ok(()) }
                            Err(m) => {
                                if self.known_match(&m).is_some() { if !failed.get() { excluded.set(excluded.get() + 1); evals.set(evals.get() + 1); let mut kf = self.known_fired.lock().unwrap(); *kf.entry(self.known_match(&m).unwrap().signature.clone()).or_default() += 1; } return Ok(()); }
                                if !failed.get() {
                                    // only the first worker that fails shrinks; the others stand down
                                    if stop.swap(true, Ordering::SeqCst) { return Ok(()); }
                                    evals.set(evals.get() + 1); failed.set(true); shrink_started.set(Some(Instant::now()));
                                }
                                Err(TestCaseError::fail(m)) }
                        }
                    });
                    self.record(sub, evals.get(), &fps.borrow(), classes.take(), nt.get(), samples.take(), excluded.get());
                    match res {
                        Ok(()) => {}
                        Err(TestError::Fail(reason, value)) => { self.report_violation(sub, &value, &reason.to_string(), None); }
                        Err(TestError::Abort(reason)) => { self.note(format!("{}: proptest aborted: {}", sub, reason)); }
                    }
                });
            }
        });
    }

    /// Small-scope exhaustive enumeration over an indexed space `0..total`.
    pub fn sse<C>(&self, sub: &str, space: &str, total: usize, make: impl Fn(usize) -> C + Sync, check: impl Fn(&C) -> CheckResult + Sync)
    where C: std::fmt::Debug + Serialize + DeserializeOwned + Clone + Send {
        if self.run_saved(sub, &check) { return; }
        let _timer = Timer { ctx: self, sub: sub.to_string(), t0: Instant::now() };
        { let mut st = self.stats.lock().unwrap(); let e = st.entry(sub.to_string()).or_default(); e.kind = "sse"; e.space = Some(match &e.space { Some(s) => format!("{}; {}", s, space), None => space.to_string() }); }
        let next = AtomicUsize::new(0);
        let first_fail = Mutex::new(None::<(usize, C, String)>);
        let done = AtomicU64::new(0);
        let block = (total / (self.jobs * 8)).clamp(1, 4096);
        std::thread::scope(|sc| {
            for w in 0..self.jobs.min(total.max(1)) {
                let (next, first_fail, make, check, done) = (&next, &first_fail, &make, &check, &done);
                sc.spawn(move || {
                    let mut evals = 0u64; let mut nt = 0u64; let mut excluded = 0u64; let mut fps = Vec::new(); let mut classes = BTreeMap::<String, u64>::new(); let mut samples = Vec::new();
                    loop {
                        let lo = next.fetch_add(block, Ordering::Relaxed);
                        if lo >= total { break; }
                        if first_fail.lock().unwrap().is_some() { break; }
                        for i in lo..(lo + block).min(total) {
                            let c = make(i);
                            trace_set(w, sub, &c);
                            evals += 1;
                            let res = guard(|| check(&c)).and_then(|r| r);
                            trace_clear(w);
                            match res {
                                Ok(inf) => { *classes.entry(inf.class.clone()).or_default() += 1; if inf.nt { nt += 1; fps.push((i as u64).wrapping_mul(0x9E3779B97F4A7C15));
                                    if samples.len() < 2 && w < 2 { samples.push(json!({"index": i, "case": c, "class": inf.class})); } } }
                                Err(m) => {
                                    if let Some(k) = self.known_match(&m) { excluded += 1; *self.known_fired.lock().unwrap().entry(k.signature.clone()).or_default() += 1; continue; }
                                    let mut ff = first_fail.lock().unwrap();
                                    if ff.as_ref().map(|f| i < f.0).unwrap_or(true) { *ff = Some((i, c, m)); }
                                    break;
                                }
                            }
                        }
                    }
                    done.fetch_add(evals, Ordering::Relaxed);
                    self.record(sub, evals, &fps, classes, nt, samples, excluded);
                });
            }
        });
        let ff = first_fail.into_inner().unwrap();
        let complete = ff.is_none();
        { let mut st = self.stats.lock().unwrap(); let e = st.entry(sub.to_string()).or_default(); e.exhaustive = Some(e.exhaustive.unwrap_or(true) && complete); }
        if let Some((_, c, m)) = ff { self.report_violation(sub, &c, &m, None); }
    }

    /// Enumeration over an explicit list.
    pub fn sse_vec<C>(&self, sub: &str, space: &str, cases: Vec<C>, check: impl Fn(&C) -> CheckResult + Sync)
    where C: std::fmt::Debug + Serialize + DeserializeOwned + Clone + Sync + Send {
        let n = cases.len();
        self.sse(sub, space, n, |i| cases[i].clone(), check);
    }

    pub fn finish(&self) -> i32 {
        if self.replay.is_some() {
            return match self.replay_outcome.lock().unwrap().take() {
                Some(Ok(s)) => { println!("replay: property {} {}", self.id, s); 0 }
                Some(Err(m)) => { if let Some(k) = self.known_match(&m) { println!("KNOWN-FINDING: property={} {}", self.id, k.what); 0 } else { println!("replay: {}", m); println!("VIOLATION property={} replay={}", self.id, std::env::var("KVERIF_REPLAY_PATH").unwrap_or_default()); 1 } }
                None => { println!("replay: no sub-check of {} matched the file", self.id); 2 }
            };
        }
        let wall = self.start.elapsed().as_secs_f64();
        let st = self.stats.lock().unwrap();
        let evaluations: u64 = st.values().map(|s| s.evaluations).sum();
        let distinct = self.distinct.lock().unwrap().len() as u64;
        let mut samples = Vec::new(); let mut subs = serde_json::Map::new(); let mut classes_all = serde_json::Map::new();
        let mut exhaustive_all: Option<bool> = None; let mut excluded = 0u64;
        for (name, s) in st.iter() {
            // evidence stays readable: at most 120 classes per sub-check are listed (the most frequent), the rest are summed
            let capped: BTreeMap<String, u64> = if s.classes.len() <= 120 { s.classes.clone() } else { let mut v: Vec<(&String, &u64)> = s.classes.iter().collect(); v.sort_by(|a, b| b.1.cmp(a.1).then(a.0.cmp(b.0))); let mut m: BTreeMap<String, u64> = v[..120].iter().map(|(k, c)| ((*k).clone(), **c)).collect(); m.insert(format!("(other: {} classes)", v.len() - 120), v[120..].iter().map(|(_, c)| **c).sum()); m };
            let s = &SubStat { wall_s: s.wall_s, evaluations: s.evaluations, nontrivial: s.nontrivial, classes: capped, samples: s.samples.clone(), exhaustive: s.exhaustive, space: s.space.clone(), replayed: s.replayed, kind: s.kind, excluded_known: s.excluded_known };
            for x in &s.samples { let mut x = x.clone(); x["sub"] = json!(name); samples.push(x); }
            let mut o = json!({"kind": s.kind, "wall_s": (s.wall_s * 100.0).round() / 100.0, "evaluations": s.evaluations, "nontrivial": s.nontrivial, "replayed": s.replayed, "classes": s.classes});
            if let Some(e) = s.exhaustive { o["exhaustive"] = json!(e); o["space"] = json!(s.space); if s.kind == "sse" { exhaustive_all = Some(exhaustive_all.unwrap_or(true) && e); } }
            if s.kind == "pbt" { exhaustive_all = Some(false); }
            excluded += s.excluded_known;
            for (k, v) in &s.classes { classes_all.insert(format!("{}/{}", name, k), json!(v)); }
            subs.insert(name.clone(), o);
        }
        let viol = self.violations.lock().unwrap();
        let kf = self.known_fired.lock().unwrap();
        let mut cov = json!({
            "evaluations": evaluations, "distinct_nontrivial": distinct,
            "rule": RULES.lock().unwrap().get(&self.id).cloned().unwrap_or_default(),
            "samples": samples, "subchecks": subs, "classes": classes_all,
            "known_findings_fired": kf.iter().map(|(k, v)| json!({"signature": k, "count": v})).collect::<Vec<_>>(),
            "excluded_by_construction": excluded, "jobs": self.jobs, "notes": *self.notes.lock().unwrap(),
        });
        if let Some(e) = exhaustive_all { cov["exhaustive"] = json!(e); }
        for (k, v) in self.extra.lock().unwrap().iter() { cov[k] = v.clone(); }
        let ev = json!({
            "property_id": self.id, "tier": if self.quick() { "quick" } else { "thorough" }, "seed": self.seed, "level": *self.level.lock().unwrap(),
            "coverage": cov, "assumptions": *self.assumptions.lock().unwrap(), "wall_s": (wall * 1000.0).round() / 1000.0, "violations": viol.len(),
        });
        let dir = self.root.join("evidence"); let _ = std::fs::create_dir_all(&dir);
        let _ = std::fs::write(dir.join(format!("{}.json", self.id)), serde_json::to_string_pretty(&ev).unwrap() + "\n");
        for k in self.known.iter().filter(|k| k.status == "open") { if kf.contains_key(&k.signature) { println!("KNOWN-FINDING: property={} {}", self.id, k.what); } }
        println!("[{}] tier={} seed={} evaluations={} distinct_nontrivial={} violations={} wall={:.1}s", self.id, if self.quick() { "quick" } else { "thorough" }, self.seed, evaluations, distinct, viol.len(), wall);
        if let Some(m) = self.inconclusive.lock().unwrap().as_ref() { if viol.is_empty() { println!("[{}] INCONCLUSIVE: {}", self.id, m); return 2; } }
        if viol.is_empty() { 0 } else { for (p, _) in viol.iter() { println!("VIOLATION property={} replay={}", self.id, p); } 1 }
    }
}

struct Timer<'a> { ctx: &'a Ctx, sub: String, t0: Instant }
impl<'a> Drop for Timer<'a> { fn drop(&mut self) { let mut st = self.ctx.stats.lock().unwrap(); st.entry(self.sub.clone()).or_default().wall_s += self.t0.elapsed().as_secs_f64(); } }

/// Wall-clock budget for shrinking one failure.
pub const SHRINK_SECS: u64 = 20;

// ---------------------------------------------------------------- crash trace
// When enabled (KVERIF_TRACE_FILE), every worker writes the case it is about to execute into its slot of a
// shared file mapping. If the process is killed (abort, stack overflow, OOM kill) the file survives and
// `kverif <ID> --triage FILE` re-runs each slot in a child process to find the case that kills it.
pub const TRACE_SLOT: usize = 1 << 16;
pub const TRACE_SLOTS: usize = 64;
static TRACE_PTR: std::sync::atomic::AtomicUsize = std::sync::atomic::AtomicUsize::new(0);
static TRACE_PATH: std::sync::OnceLock<String> = std::sync::OnceLock::new();
pub fn trace_enable(path: &str) {
    use std::os::unix::io::AsRawFd;
    let Ok(f) = std::fs::OpenOptions::new().read(true).write(true).create(true).truncate(true).open(path) else { return };
    if f.set_len((TRACE_SLOT * TRACE_SLOTS) as u64).is_err() { return; }
    let p = unsafe { libc::mmap(std::ptr::null_mut(), TRACE_SLOT * TRACE_SLOTS, libc::PROT_READ | libc::PROT_WRITE, libc::MAP_SHARED, f.as_raw_fd(), 0) };
    if p != libc::MAP_FAILED { let _ = TRACE_PATH.set(path.to_string()); TRACE_PTR.store(p as usize, Ordering::SeqCst); }
}
static TRACE_T0: std::sync::OnceLock<Instant> = std::sync::OnceLock::new();
fn trace_set<C: Serialize>(worker: usize, sub: &str, case: &C) {
    let base = TRACE_PTR.load(Ordering::Relaxed); if base == 0 { return; }
    let Ok(mut body) = serde_json::to_vec(&json!({"sub": sub, "case": case})) else { return };
    if body.len() > TRACE_SLOT - 8 {
        // a case too large for its slot goes to a side file; the slot points to it
        let side = format!("{}.w{}.json", TRACE_PATH.get().map(|s| s.as_str()).unwrap_or("/dev/shm/kverif-trace"), worker % TRACE_SLOTS);
        if std::fs::write(&side, &body).is_err() { return; }
        body = serde_json::to_vec(&json!({"sub": sub, "big": side})).unwrap_or_default();
    }
    let slot = (base + (worker % TRACE_SLOTS) * TRACE_SLOT) as *mut u8;
    let ts = TRACE_T0.get_or_init(Instant::now).elapsed().as_secs() as u32;
    unsafe { std::ptr::write_volatile(slot as *mut u32, 0); std::ptr::write_volatile((slot as *mut u32).add(1), ts); std::ptr::copy_nonoverlapping(body.as_ptr(), slot.add(8), body.len()); std::ptr::write_volatile(slot as *mut u32, body.len() as u32); }
}
fn trace_clear(worker: usize) { let base = TRACE_PTR.load(Ordering::Relaxed); if base == 0 { return; } unsafe { std::ptr::write_volatile((base + (worker % TRACE_SLOTS) * TRACE_SLOT) as *mut u32, 0); } }
/// Hang monitor: a case that has been executing for longer than `limit_s` is saved as a replay; for C09 ("never
/// a hang") that is a violation, for every other property the run is inconclusive (exit 2) - but at once, not
/// after the global watchdog.
pub fn start_hang_monitor(id: String, root: PathBuf, limit_s: u64) {
    std::thread::spawn(move || loop {
        std::thread::sleep(std::time::Duration::from_secs(1));
        let base = TRACE_PTR.load(Ordering::Relaxed); if base == 0 { continue; }
        let now = TRACE_T0.get_or_init(Instant::now).elapsed().as_secs() as u32;
        for s in 0..TRACE_SLOTS {
            let slot = (base + s * TRACE_SLOT) as *const u8;
            let (len, ts) = unsafe { (std::ptr::read_volatile(slot as *const u32) as usize, std::ptr::read_volatile((slot as *const u32).add(1))) };
            if len == 0 || len > TRACE_SLOT - 8 || (now.saturating_sub(ts) as u64) < limit_s.max(HANG_LIMIT.load(Ordering::Relaxed)) { continue; }
            let body = unsafe { std::slice::from_raw_parts(slot.add(8), len) }.to_vec();
            let Ok(mut v) = serde_json::from_slice::<Value>(&body) else { continue };
            if let Some(side) = v.get("big").and_then(|b| b.as_str()) { if let Some(full) = std::fs::read(side).ok().and_then(|t| serde_json::from_slice::<Value>(&t).ok()) { v = full; } }
            let dir = root.join("replays").join(&id); let _ = std::fs::create_dir_all(&dir);
            let p = dir.join(format!("{}-hang-{:016x}.json", v["sub"].as_str().unwrap_or("x"), fnv64(&body)));
            let _ = std::fs::write(&p, serde_json::to_string_pretty(&json!({"property": id, "sub": v["sub"], "case": v["case"], "message": format!("the case did not finish within {} s", now - ts)})).unwrap());
            eprintln!("[{}:{}] a case has been executing for {} s without returning; saved to {}", id, v["sub"].as_str().unwrap_or("?"), now - ts, p.display());
            let viol = id == "C09";
            let ev = json!({"property_id": id, "tier": "quick", "seed": 0, "level": "exploration", "wall_s": now, "violations": if viol { 1 } else { 0 },
                "coverage": {"evaluations": 1, "distinct_nontrivial": 2, "rule": "run ended by the hang monitor; counts are placeholders", "samples": [v], "notes": ["a case did not return; see the replay file"]}});
            let _ = std::fs::create_dir_all(root.join("evidence")); let _ = std::fs::write(root.join("evidence").join(format!("{}.json", id)), serde_json::to_string_pretty(&ev).unwrap());
            if viol { println!("VIOLATION property={} replay={}", id, p.display()); std::process::exit(1); }
            println!("[{}] INCONCLUSIVE: a case did not return within {} s (saved to {})", id, now - ts, p.display()); std::process::exit(2);
        }
    });
}
/// Properties whose single cases legitimately run long (C11 streams gigabytes) raise the limit.
pub static HANG_LIMIT: AtomicU64 = AtomicU64::new(0);
/// Re-run every traced case in a child process; the first one that ends abnormally is saved as a replay.
pub fn triage(id: &str, root: &std::path::Path, file: &str) -> i32 {
    let Ok(data) = std::fs::read(file) else { eprintln!("triage: cannot read {}", file); return 2 };
    let exe = std::env::current_exe().unwrap();
    for s in 0..TRACE_SLOTS {
        let off = s * TRACE_SLOT; if off + 8 > data.len() { break; }
        let len = u32::from_le_bytes(data[off..off + 4].try_into().unwrap()) as usize; if len == 0 || off + 8 + len > data.len() { continue; }
        let Ok(mut v) = serde_json::from_slice::<Value>(&data[off + 8..off + 8 + len]) else { continue };
        if let Some(side) = v.get("big").and_then(|b| b.as_str()) { let Ok(t) = std::fs::read(side) else { continue }; let Ok(full) = serde_json::from_slice::<Value>(&t) else { continue }; let _ = std::fs::remove_file(side); v = full; }
        let body = json!({"property": id, "sub": v["sub"], "case": v["case"], "message": "the process ended abnormally (abort / signal) while executing this case"});
        let dir = root.join("replays").join(id); let _ = std::fs::create_dir_all(&dir);
        let p = dir.join(format!("{}-abort-{:016x}.json", v["sub"].as_str().unwrap_or("x"), fnv64(&data[off + 8..off + 8 + len])));
        let _ = std::fs::write(&p, serde_json::to_string_pretty(&body).unwrap());
        let st = std::process::Command::new(&exe).arg(id).arg("--replay").arg(&p).env_remove("KVERIF_TRACE_FILE").stdout(std::process::Stdio::null()).stderr(std::process::Stdio::null()).status();
        use std::os::unix::process::ExitStatusExt;
        match st { Ok(st) if st.signal().is_some() || st.code().map(|c| c > 2).unwrap_or(true) => { println!("[{}] the process is killed by this case (status {:?}, signal {:?})", id, st.code(), st.signal()); println!("VIOLATION property={} replay={}", id, p.display()); return 1; } _ => { let _ = std::fs::remove_file(&p); } }
    }
    eprintln!("triage: none of the traced cases reproduces the abnormal end"); 2
}

pub static RULES: Mutex<BTreeMap<String, String>> = Mutex::new(BTreeMap::new());
pub fn set_rule(id: &str, rule: &str) { RULES.lock().unwrap().insert(id.into(), rule.into()); }

fn load_known(root: &std::path::Path, id: &str) -> Vec<Known> {
    let Ok(txt) = std::fs::read_to_string(root.join("known_findings.json")) else { return vec![] };
    let Ok(v) = serde_json::from_str::<Value>(&txt) else { return vec![] };
    v.as_array().map(|a| a.iter().filter(|e| e["property"] == id).map(|e| Known { property: id.into(), signature: e["signature"].as_str().unwrap_or("\u{0}").into(), status: e["status"].as_str().unwrap_or("").into(), what: e["what"].as_str().unwrap_or("").into() }).collect()).unwrap_or_default()
}

/// Monotone index mapping for shrink-friendly choices: u16 fraction -> 0..len.
pub fn pick(frac: u16, len: usize) -> usize { if len == 0 { 0 } else { ((frac as usize) * len) >> 16 } }

/// Samples in the evidence are for reading: long strings and long arrays inside a sampled case are cut (the case itself is
/// a pure function of the seed and can be regenerated; failing cases are kept whole in their replay files).
pub fn clip(v: Value) -> Value {
    match v {
        Value::String(t) => if t.chars().count() > 300 { let head: String = t.chars().take(200).collect(); Value::String(format!("{}... ({} characters in all)", head, t.chars().count())) } else { Value::String(t) },
        Value::Array(a) => { let n = a.len(); let mut out: Vec<Value> = a.into_iter().take(if n > 48 { 24 } else { n }).map(clip).collect(); if n > 48 { out.push(Value::String(format!("... ({} elements in all)", n))); } Value::Array(out) }
        Value::Object(m) => Value::Object(m.into_iter().map(|(k, x)| (k, clip(x))).collect()),
        other => other,
    }
}
