#!/usr/bin/env python3
"""Collects confirmed seeded changes from /tmp/seed into /verif/seeded/<ID><V>/ and writes seeded/KILL_MATRIX.md.
Each directory gets: patch.diff, the demonstration, demo_how.txt, meta.json (property, summary, needs, what was run)."""
import json, os, shutil, glob, re
rows = []
for d in sorted(glob.glob("/tmp/seed/C??.out/[A-G]")):
    pid = d.split("/")[3][:3]; v = d[-1]
    cf = f"/tmp/seed/confirm_{pid}{v}.log"
    try: conf = json.load(open(cf))
    except Exception: conf = {}
    tries = []
    if os.path.exists("/tmp/seed/results.jsonl"):
        for l in open("/tmp/seed/results.jsonl"):
            try: r = json.loads(l)
            except Exception: continue
            if r.get("mode") == "try" and r["id"] == pid and r["v"] == v: tries.append(r)
    if not conf.get("confirmed"): print("skip (not confirmed):", pid, v); continue
    out = f"/verif/seeded/{pid}{v}"; os.makedirs(out, exist_ok=True)
    for f in os.listdir(d):
        if f != "meta.json": shutil.copy(os.path.join(d, f), out)
    try: meta = json.load(open(os.path.join(d, "meta.json")))
    except Exception: meta = {}
    runs = {}
    for i, t in enumerate(tries):
        for c, r in t["checks"].items(): runs.setdefault(c, []).append({"round": i + 1, "exit": r["exit"], "violation": r["violation"], "wall_s": r["wall"], "message": (r["msg"] or [""])[0][:300]})
    meta_out = {"property": pid, "variant": v, "summary": meta.get("summary", ""), "needs": meta.get("needs", ""), "author": "independent sub-agent given only the property text and a scratch worktree",
                "confirmed_by_us": {"worktree": f"/tmp/seed/{pid} (removed afterwards)", "suite_with_change": f"{conf.get('suite_passed')} tests passed, unedited", "demo_without_change_exit": conf.get("demo_without_change"), "demo_with_change_exit": conf.get("demo_with_change"), "demo_command": conf.get("cmd"), "demo_destination": conf.get("dest"), "failure_excerpt": conf.get("demo_fail_excerpt", "")},
                "author_verified": meta.get("verified", ""),
                "checks_run_with_change_applied_to_repo": runs}
    json.dump(meta_out, open(os.path.join(out, "meta.json"), "w"), indent=1)
    rows.append((pid, v, meta_out))
with open("/verif/seeded/KILL_MATRIX.md", "w") as f:
    f.write("# Seeded changes: which quick check reports which change\n\nEach change was written by a fresh sub-agent that saw only the property text; each compiles, passes the 33 repository tests unedited, and comes with a demonstration that fails with the change and passes without it (re-confirmed by us in a scratch worktree). `exit 1` = the check printed a VIOLATION line; `exit 0` = missed. Where several rounds are listed, round 1 is the check as it was when the change was written; later rounds are after strengthening (section 12 of DESIGN.md).\n\n| change | what it does / what it needs | checks run (quick tier, change applied to /repo) |\n|---|---|---|\n")
    for pid, v, m in rows:
        cells = []
        for c, rs in m["checks_run_with_change_applied_to_repo"].items():
            cells.append(c + ": " + ", ".join(f"r{r['round']} exit {r['exit']}" for r in rs))
        f.write(f"| {pid}{v} | {m['summary'][:260].replace('|','/')} — needs: {m['needs'][:200].replace('|','/')} | {'; '.join(cells)} |\n")
print("collected", len(rows))
