#![no_main]
//! (password, salt, small N/r/p, dkLen) decoded from the bytes -> the exported C function writing into an
//! exactly-sized heap buffer (ASan redzones): value = RFC 7914 reference, nothing else touched.
use kverif_fuzz::Bytes;
use libfuzzer_sys::fuzz_target;
fuzz_target!(|data: &[u8]| {
    let mut b = Bytes::new(data);
    let n = 1u32 << (1 + b.u8() % 6); let r = 1 + (b.u8() % 4) as u32; let p = 1 + (b.u8() % 3) as u32; let dk = 1 + b.u8() as usize % 100;
    let pl = b.u8() as usize % 80; let pw = b.take(pl).to_vec(); let salt = b.rest().to_vec();
    let want = kspec::scrypt(&pw, &salt, n as usize, r as usize, p as usize, dk);
    assert!(kestrel_crypto::scrypt(&pw, &salt, n, r, p, dk) == want, "C18: library scrypt differs from RFC 7914 (N={} r={} p={} dk={})", n, r, p, dk);
    let mut out = vec![0xA5u8; dk].into_boxed_slice();
    unsafe { kverif_fuzz::ffi::scrypt(pw.as_ptr(), pw.len(), salt.as_ptr(), salt.len(), n, r, p, out.as_mut_ptr(), dk); }
    assert!(out[..] == want[..], "C18: exported C scrypt differs from RFC 7914 (N={} r={} p={} dk={})", n, r, p, dk);
});
