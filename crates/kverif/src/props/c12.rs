//! C12 — CLI exit status is truthful and results do not depend on how I/O is wired.
use crate::cli::{self, CliIdent, In, Out, Sandbox};
use crate::core::{ok, set_rule, CheckResult, Ctx};
use crate::ensure;
use crate::gen::{self, Plain};
use crate::kx;
use crate::sio::{RSched, WSched};
use proptest::prelude::*;
use serde::{Deserialize, Serialize};
use super::c13::ids;

#[derive(Clone, Copy, Debug, Serialize, Deserialize, PartialEq)]
pub enum FileKind { Authentic, CorruptFirst, CorruptLater, Truncated, Extended, WrongRecipient, WrongMode, Garbage }
#[derive(Clone, Copy, Debug, Serialize, Deserialize, PartialEq)]
pub enum Req { KeyEnc, KeyDec(FileKind), PassEnc, PassDec(FileKind), PassDecWrongPw }
#[derive(Clone, Copy, Debug, Serialize, Deserialize, PartialEq)]
pub enum SenderPos { First, Last, Absent, OnlyWithRecipient, AbsentCaseVariantPresent }
#[derive(Clone, Copy, Debug, Serialize, Deserialize, PartialEq, Eq, Hash)]
pub struct Wiring { pub stdin_in: bool, pub stdout_out: bool, pub env_keyring: bool, pub short_opts: bool, pub alias: bool, pub opts_first: bool }
#[derive(Clone, Copy, Debug, Serialize, Deserialize, PartialEq)]
pub enum Sink { Healthy, DevFull, ClosedPipe }
#[derive(Clone, Debug, Serialize, Deserialize)]
pub struct Case { pub req: Req, pub plain: Plain, pub chunks: Vec<usize>, pub pos: SenderPos, pub wirings: Vec<Wiring>, pub sink: Sink, pub sel: u64,
    /// a file already at the -o path, this many bytes longer than what the run will write (None = path absent)
    #[serde(default)] pub prior_out: Option<u16>,
    /// with -k given, KESTREL_KEYRING is additionally set to a decoy (1 = missing path, 2 = another valid keyring)
    #[serde(default)] pub env_decoy: u8,
    /// name of the input file: 0 = in.bin, otherwise a word that is also a command or alias (enc, dec, pass, gen, key, encrypt, password)
    #[serde(default)] pub in_name: u8,
    /// one more wiring: the password is typed at a (pseudo-)terminal instead of read from KESTREL_PASSWORD
    #[serde(default)] pub typed: bool,
    /// further wirings whose -o target is not a regular file: 1 = /dev/stdout with stdout a pipe, 2 = a named pipe somebody reads, 3 = /dev/null
    #[serde(default)] pub out_kinds: Vec<u8>,
    /// further wirings whose FILE operand is not a regular file: 1 = a named pipe fed by a writer, 2 = /dev/stdin with stdin a pipe, 3 = a symbolic link to the file, 4 = the file by absolute path
    #[serde(default)] pub in_kinds: Vec<u8>,
    /// 1: the keyring also holds entries whose names begin with / are the beginning of the names used ("bobby" before "bob", "al" ...);
    /// 2: the sender's entry has a 99-character name and another entry is named like its first 60 characters
    #[serde(default)] pub names: u8 }

pub fn wiring_from(i: usize) -> Wiring { Wiring { stdin_in: i & 1 != 0, stdout_out: i & 2 != 0, env_keyring: i & 4 != 0, short_opts: i & 8 != 0, alias: i & 16 != 0, opts_first: i & 32 != 0 } }
const PW: &str = "c12 file password";

#[derive(Debug, PartialEq, Clone)]
struct Outcome { code: Option<i32>, data: Option<Vec<u8>>, sender_line: Option<String> }

fn lens_for(len: usize, chunks: &[usize]) -> Vec<usize> { let mut v = Vec::new(); let mut left = len; for &c in chunks { if left == 0 { break; } let l = c.max(1).min(left).min(65536); v.push(l); left -= l; } while left > 0 { let l = left.min(65536); v.push(l); left -= l; } v }

fn damage(kind: FileKind, f: &[u8], hdr: usize, lens: &[usize], sel: u64) -> Vec<u8> {
    let mut b = f.to_vec(); let s = sel as usize;
    let rec = |j: usize| hdr + (0..j).map(|i| 32 + lens[i]).sum::<usize>();
    match kind {
        FileKind::CorruptFirst => { let l0 = lens.first().copied().unwrap_or(0); let p = hdr + 8 + s % (24 + l0); b[p] ^= 1 << (s % 8); }
        FileKind::CorruptLater => { if lens.len() >= 2 { let j = 1 + s % (lens.len() - 1); let p = rec(j) + 8 + (s / 7) % (24 + lens[j]); b[p] ^= 1 << (s % 8); } else { let p = b.len() - 1 - s % 16; b[p] ^= 1; } }
        FileKind::Truncated => { let l = b.len(); b.truncate(s % l); }
        FileKind::Extended => { b.extend_from_slice(&gen::bytes_from(sel, 1 + s % 40)); }
        _ => {}
    }
    b
}

pub fn check(c: &Case) -> CheckResult {
    let id = ids(); let p = c.plain.bytes(); let lens = lens_for(p.len(), &c.chunks);
    let dave = CliIdent { name: "dave".into(), sk: [0; 32], pk: kspec::x25519_base(&[9u8; 32]), epk: kspec::encode_public_key(&kspec::x25519_base(&[9u8; 32])), esk: String::new(), password: String::new() };
    let alice_ident = kx::Ident { sk: id.alice.sk, pk: id.alice.pk };
    // an entry whose encoded key is the sender's with the letter case exchanged: another key, not the sender
    let swapped: String = id.alice.epk.chars().map(|c| if c.is_ascii_lowercase() { c.to_ascii_uppercase() } else { c.to_ascii_lowercase() }).collect();
    let variant = CliIdent { name: "mallory".into(), sk: [0; 32], pk: [0; 32], epk: swapped, esk: String::new(), password: String::new() };
    // keyring: recipient bob always present; the sender's entry first / last / absent
    let entries: Vec<(&CliIdent, bool)> = match (c.req, c.pos) {
        (Req::KeyEnc, _) => vec![(&id.carol, false), (&id.alice, true), (&id.bob, false)],
        (_, SenderPos::First) => vec![(&id.alice, false), (&id.carol, false), (&id.bob, true), (&dave, false)],
        (_, SenderPos::Last) => vec![(&id.carol, false), (&id.bob, true), (&dave, false), (&id.alice, true)],
        (_, SenderPos::Absent) => vec![(&id.carol, false), (&id.bob, true)],
        (_, SenderPos::AbsentCaseVariantPresent) => vec![(&variant, false), (&id.bob, true), (&id.carol, false)],
        (_, SenderPos::OnlyWithRecipient) => vec![(&id.bob, true), (&id.alice, false)],
    };
    // keyrings whose names are related as prefixes, and a sender entry with a long name next to one named like its beginning
    let mk = |name: &str, seed: u8| CliIdent { name: name.into(), sk: [0; 32], pk: kspec::x25519_base(&[seed; 32]), epk: kspec::encode_public_key(&kspec::x25519_base(&[seed; 32])), esk: String::new(), password: String::new() };
    let (bobby, al, alice2, bo) = (mk("bobby", 21), mk("al", 22), mk("alice2", 23), mk("bo", 24));
    let long_alice = CliIdent { name: format!("alice{}", "-of-the-long-department-name".repeat(4)).chars().take(99).collect(), ..id.alice.clone() };
    let short_twin = mk(&long_alice.name.chars().take(60).collect::<String>(), 25);
    let mut entries = entries;
    if c.names == 1 { let mut e2: Vec<(&CliIdent, bool)> = vec![(&bobby, false), (&alice2, false)]; e2.extend(entries.iter().cloned()); e2.push((&al, false)); e2.push((&bo, false)); entries = e2; }
    if c.names == 2 { for e in entries.iter_mut() { if std::ptr::eq(e.0, &id.alice) { e.0 = &long_alice; } } entries.insert(0, (&short_twin, false)); }
    let sender_name: &str = if c.names == 2 { &long_alice.name } else { "alice" };
    let kr = cli::keyring_text(&entries);
    // the presented file and what must come of it, by construction
    let (input, expect_ok, expect_data): (Vec<u8>, bool, Option<Vec<u8>>) = match c.req {
        Req::KeyEnc | Req::PassEnc => (p.clone(), true, None),
        Req::KeyDec(kind) => {
            let auth = kx::key_encrypt_chunked(&p, &lens, &alice_ident, &id.bob.pk, &gen::key32(c.sel, "e"), &gen::key32(c.sel, "p"))?;
            match kind {
                FileKind::Authentic => (auth, true, Some(p.clone())),
                FileKind::WrongRecipient => (kx::key_encrypt_chunked(&p, &lens, &alice_ident, &id.carol.pk, &gen::key32(c.sel, "e"), &gen::key32(c.sel, "p"))?, false, None),
                FileKind::WrongMode => (pass_file_cached(&p[..p.len().min(40)], &lens_for(p.len().min(40), &c.chunks)), false, None),
                FileKind::Garbage => (gen::bytes_from(c.sel, 200), false, None),
                k => { let d = damage(k, &auth, 132, &lens, c.sel); let same = d == auth; (d, same, if same { Some(p.clone()) } else { None }) }
            }
        }
        Req::PassDec(kind) => {
            let pp = &p[..p.len().min(60)]; let l2 = lens_for(pp.len(), &c.chunks);
            let auth = pass_file_cached(pp, &l2);
            match kind {
                FileKind::Authentic => (auth, true, Some(pp.to_vec())),
                FileKind::WrongMode | FileKind::WrongRecipient => (kx::key_encrypt_chunked(&p, &lens, &alice_ident, &id.bob.pk, &gen::key32(c.sel, "e"), &gen::key32(c.sel, "p"))?, false, None),
                FileKind::Garbage => (gen::bytes_from(c.sel, 200), false, None),
                k => { let d = damage(k, &auth, 36, &l2, c.sel); let same = d == auth; (d, same, if same { Some(pp.to_vec()) } else { None }) }
            }
        }
        Req::PassDecWrongPw => { let pp = &p[..p.len().min(60)]; (pass_file_cached(pp, &lens_for(pp.len(), &c.chunks)), false, None) }
    };
    let is_dec = matches!(c.req, Req::KeyDec(_) | Req::PassDec(_) | Req::PassDecWrongPw);
    let is_key = matches!(c.req, Req::KeyEnc | Req::KeyDec(_));
    let mut outcomes: Vec<(Wiring, Outcome, String)> = Vec::new();
    let mut wirings: Vec<(Wiring, bool, u8, u8)> = c.wirings.iter().map(|w| (*w, false, 0u8, 0u8)).collect();
    if c.typed && c.sink == Sink::Healthy && cli::pty_available() && !matches!(c.req, Req::PassDecWrongPw) { wirings.push((wiring_from(0), true, 0, 0)); }
    if c.sink == Sink::Healthy { for (i, k) in c.out_kinds.iter().enumerate() { if (1..=3).contains(k) { let mut w = wiring_from((c.sel as usize >> (6 * i)) & 63); w.stdout_out = false; wirings.push((w, false, *k, 0)); } } }
    for (i, k) in c.in_kinds.iter().enumerate() { if (1..=4).contains(k) { let mut w = wiring_from((c.sel as usize >> (5 * i + 3)) & 63); w.stdin_in = false; wirings.push((w, false, 0, *k)); } }
    for (w, typed, okind, ikind) in &wirings {
        let (typed, okind, ikind) = (*typed, *okind, *ikind);
        let sb = Sandbox::new();
        let in_name = ["in.bin", "enc", "dec", "pass", "gen", "key", "encrypt", "password"][c.in_name as usize % 8];
        sb.write(in_name, &input); sb.write("keys.txt", kr.as_bytes());
        if in_name == "pass" { sb.write("password", b"not the input"); } if in_name == "enc" { sb.write("encrypt", b"not the input"); } if in_name == "dec" { sb.write("decrypt", b"not the input"); }
        sb.write("decoy.txt", cli::keyring_text(&[(&id.carol, false), (&dave, false)]).as_bytes());
        // a longer file already at the output path: a completed run must leave exactly its own output there
        let prior: Option<Vec<u8>> = c.prior_out.map(|extra| gen::bytes_from(c.sel ^ 0x0DD, expect_data.as_ref().map(|d| d.len()).unwrap_or(input.len() + 200) + 1 + extra as usize));
        if let Some(pr) = &prior { sb.write("out.bin", pr); }
        let mut a: Vec<String> = Vec::new();
        match c.req { Req::KeyEnc => a.push(if w.alias { "enc" } else { "encrypt" }.into()), Req::KeyDec(_) => a.push(if w.alias { "dec" } else { "decrypt" }.into()),
            Req::PassEnc => { a.push(if w.alias { "pass" } else { "password" }.into()); a.push(if w.alias { "enc" } else { "encrypt" }.into()); }
            _ => { a.push(if w.alias { "pass" } else { "password" }.into()); a.push(if w.alias { "dec" } else { "decrypt" }.into()); } }
        let mut opts: Vec<String> = Vec::new();
        let o = |l: &str, s: &str| -> String { if w.short_opts { format!("-{}", s) } else { format!("--{}", l) } };
        if is_key { opts.push(o("to", "t")); opts.push("bob".into()); }
        if c.req == Req::KeyEnc { opts.push(o("from", "f")); opts.push(sender_name.into()); }
        let sink_special = c.sink != Sink::Healthy;
        let to_stdout = w.stdout_out || sink_special;
        if !to_stdout { opts.push(o("output", "o")); opts.push(["out.bin", "/dev/stdout", "out.fifo", "/dev/null"][okind as usize].into()); }
        if is_key && !w.env_keyring { opts.push(o("keyring", "k")); opts.push("keys.txt".into()); }
        if !typed { opts.push("--env-pass".into()); }
        if ikind == 3 { let _ = std::os::unix::fs::symlink(sb.path(in_name), sb.path("in.lnk")); }
        let file_arg: Vec<String> = if w.stdin_in { vec![] } else { vec![match ikind { 1 => "in.fifo".to_string(), 2 => "/dev/stdin".to_string(), 3 => "in.lnk".to_string(), 4 => sb.path(in_name).to_string_lossy().into_owned(), _ => in_name.to_string() }] };
        if w.opts_first { a.extend(opts); a.extend(file_arg); } else { a.extend(file_arg); a.extend(opts); }
        let ar: Vec<&str> = a.iter().map(|s| s.as_str()).collect();
        let mut cmd = sb.cmd(&ar);
        let pw = match c.req { Req::KeyEnc => id.alice.password.clone(), Req::KeyDec(_) => id.bob.password.clone(), Req::PassDecWrongPw => format!("{}!", PW), _ => PW.to_string() };
        if typed { cmd.pty_lines = Some(vec![pw.clone(), pw.clone()]); cmd.timeout_ms = 40_000; } else { cmd.env.push(("KESTREL_PASSWORD".into(), pw)); }
        if is_key && w.env_keyring { cmd.env.push(("KESTREL_KEYRING".into(), sb.path("keys.txt").to_string_lossy().into_owned())); }
        // -k names the keyring; an unrelated KESTREL_KEYRING in the environment must not matter (USAGE: the variable is the fallback)
        if is_key && !w.env_keyring && c.env_decoy > 0 { cmd.env.push(("KESTREL_KEYRING".into(), if c.env_decoy == 1 { "no-such-keyring.txt".into() } else { sb.path("decoy.txt").to_string_lossy().into_owned() })); }
        if w.stdin_in { cmd.stdin = In::File(sb.path(in_name)); }
        if ikind == 1 { cmd.fifos.push(("in.fifo".into(), input.clone(), vec![input.len() / 3 + 1, 7, 70_000])); }
        if ikind == 2 { cmd.stdin = In::Pipe(input.clone(), vec![input.len() / 2 + 1, 70_000]); }
        cmd.stdout = match c.sink { Sink::DevFull => Out::DevFull, Sink::ClosedPipe => Out::ClosedPipe, Sink::Healthy => if okind == 1 { Out::PipeCapture } else { Out::Capture } };
        if okind == 2 { cmd.out_fifos.push("out.fifo".into()); }
        let mut r = cmd.run();
        if typed { // on a terminal the tool's messages arrive on the terminal: treat them as its stderr
            r.stderr = r.stdout.iter().filter(|&&b| b != b'\r').cloned().collect(); r.stdout.clear(); }
        ensure!(r.signal.is_none() && !r.timed_out && matches!(r.code, Some(0) | Some(1)), "[{:?}{}] abnormal end: {}", w, if typed { " typed" } else { "" }, r.describe());
        if r.code == Some(1) { ensure!(r.stderr_s().lines().any(|l| l.trim_start().starts_with("Error:")), "[{:?}] exit 1 without an Error: line: {:?}", w, r.stderr_s()); }
        let mut data = if sink_special { None } else if to_stdout || okind == 1 { Some(r.stdout.clone()) } else if okind == 2 { r.fifo_out.first().cloned() } else if okind == 3 { None } else { sb.read("out.bin") };
        // an untouched pre-existing file means the run delivered nothing
        if !to_stdout && prior.is_some() && data == prior { data = None; }
        if !to_stdout && okind != 1 { ensure!(r.stdout.is_empty(), "[{:?}] data on stdout although -o was given", w); }
        let w = &(*w, ["", "-o /dev/stdout (a pipe)", "-o <named pipe>", "-o /dev/null"][okind as usize], ["", "FILE = named pipe", "FILE = /dev/stdin (a pipe)", "FILE = symbolic link", "FILE = absolute path"][ikind as usize]);
        let err = r.stderr_s();
        let sender_line = err.lines().map(|l| l.trim()).find(|l| l.starts_with("Success. File from:") || l.starts_with("Unknown key:")).map(|s| s.to_string());
        // (1) exit status = what the request is by construction
        let sink_fails = sink_special && (!is_dec || expect_data.as_ref().map(|d| !d.is_empty()).unwrap_or(false));
        let should_ok = expect_ok && !sink_fails;
        if sink_special && is_dec && expect_ok && !sink_fails { /* nothing to write: either outcome of the device is fine */ }
        ensure!((r.code == Some(0)) == should_ok, "[{:?}] {:?} ({:?} sink) exited {:?} but the operation {} (stderr: {})", w, c.req, c.sink, r.code, if should_ok { "completes by construction" } else { "cannot complete" }, err.replace('\n', " | "));
        if r.code == Some(0) && !sink_special {
            // (2) content (nothing to look at when the data went to /dev/null)
            if okind == 3 { data = if is_dec { expect_data.clone() } else { None }; }
            if okind != 3 {
            if is_dec { ensure!(data.as_deref() == expect_data.as_deref(), "[{:?}] decryption exited 0 but delivered {:?} bytes instead of the {} plaintext bytes", w, data.as_ref().map(|d| d.len()), expect_data.as_ref().map(|d| d.len()).unwrap_or(0)); }
            else {
                let ct = data.clone().ok_or("encryption exited 0 but produced no output")?;
                if c.req == Req::KeyEnc {
                    let (res, sh) = kx::key_decrypt(&ct, &RSched::full(), &WSched::all(), None, &id.bob.sk, &id.bob.pk);
                    match res { kx::DecRes::Ok(Some(s)) => { ensure!(*sh.sink.borrow() == p, "[{:?}] file produced by the CLI decrypts to different bytes", w); ensure!(s == id.alice.pk, "[{:?}] file produced by the CLI names a sender other than the --from key", w); } other => return Err(format!("[{:?}] file produced by `encrypt` (exit 0) does not decrypt: {:?}", w, other)) }
                } else {
                    let (res, sh) = kx::pass_decrypt(&ct, &RSched::full(), &WSched::all(), None, PW.as_bytes());
                    ensure!(res.is_ok() && *sh.sink.borrow() == p, "[{:?}] file produced by `password encrypt` (exit 0) does not decrypt to the input", w);
                }
            }
            }
            // (3) sender line
            if let Req::KeyDec(_) = c.req {
                let want = if matches!(c.pos, SenderPos::Absent | SenderPos::AbsentCaseVariantPresent) { format!("Unknown key: {}", id.alice.epk) } else { format!("Success. File from: {}", sender_name) };
                ensure!(sender_line.as_deref() == Some(want.as_str()), "[{:?}] after a successful decryption stderr says {:?}, expected {:?}", w, sender_line, want);
                if matches!(c.pos, SenderPos::Absent | SenderPos::AbsentCaseVariantPresent) { ensure!(err.contains("unknown key"), "unknown sender not reported as such"); }
            }
        } else if is_dec && r.code == Some(1) && !sink_special {
            ensure!(sender_line.is_none(), "[{:?}] a failed decryption still printed a sender line: {:?}", w, sender_line);
        }
        // an output file that was never created and an empty stdout are the same observable result: nothing was delivered
        let comparable = Outcome { code: r.code, data: if is_dec && !sink_special { Some(data.unwrap_or_default()) } else { None }, sender_line };
        let mut comparable = comparable; if okind == 3 { if let Some(first) = outcomes.first() { comparable.data = first.1.data.clone(); } }
        outcomes.push((w.0, comparable, err));
    }
    // (4) every wiring of the same request agrees
    for (w, o, err) in &outcomes[1..] { if *o != outcomes[0].1 { return Err(format!("wiring {:?} and wiring {:?} of the same request disagree: {:?}/{:?} bytes/{:?} vs {:?}/{:?} bytes/{:?} (stderr: {})", outcomes[0].0, w, outcomes[0].1.code, outcomes[0].1.data.as_ref().map(|d| d.len()), outcomes[0].1.sender_line, o.code, o.data.as_ref().map(|d| d.len()), o.sender_line, err.replace('\n', " | "))); } }
    let failing = !expect_ok || c.sink != Sink::Healthy;
    let nonstd = c.wirings.iter().any(|w| w.stdin_in || w.stdout_out || w.env_keyring);
    ok(failing || nonstd || c.pos != SenderPos::First, format!("{:?}/{}/{:?}", c.req, if failing { "fails" } else { "completes" }, c.sink).replace(['(', ')'], ":"))
}

static PASS_CACHE: std::sync::Mutex<Vec<((Vec<u8>, Vec<usize>), Vec<u8>)>> = std::sync::Mutex::new(Vec::new());
fn pass_file_cached(p: &[u8], lens: &[usize]) -> Vec<u8> {
    let key = (p.to_vec(), lens.to_vec());
    if let Some((_, f)) = PASS_CACHE.lock().unwrap().iter().find(|(k, _)| *k == key) { return f.clone(); }
    let (res, sh) = kx::pass_encrypt(p, &RSched { gives: lens.to_vec(), then: 0 }, &WSched::all(), None, PW.as_bytes(), gen::key32(p.len() as u64, "c12-salt")); assert!(res.is_ok());
    let f = sh.sink.take(); let mut c = PASS_CACHE.lock().unwrap(); if c.len() > 64 { c.clear(); } c.push((key, f.clone())); f
}

fn kind_strategy() -> impl Strategy<Value = FileKind> { prop_oneof![3 => Just(FileKind::Authentic), 1 => Just(FileKind::CorruptFirst), 2 => Just(FileKind::CorruptLater), 1 => Just(FileKind::Truncated), 1 => Just(FileKind::Extended), 1 => Just(FileKind::WrongRecipient), 1 => Just(FileKind::WrongMode), 1 => Just(FileKind::Garbage)] }
pub fn strat() -> impl Strategy<Value = Case> {
    let req = prop_oneof![3 => Just(Req::KeyEnc), 6 => kind_strategy().prop_map(Req::KeyDec), 1 => Just(Req::PassEnc), 2 => kind_strategy().prop_map(Req::PassDec), 1 => Just(Req::PassDecWrongPw)];
    let plain = prop_oneof![1 => any::<u64>().prop_map(|seed| Plain { len: 0, seed }), 6 => gen::small_plain(300), 1 => gen::plain_strategy(200_000)];
    (req, plain, proptest::collection::vec(1usize..60, 0..5), prop_oneof![Just(SenderPos::First), Just(SenderPos::Last), Just(SenderPos::Absent), Just(SenderPos::OnlyWithRecipient), Just(SenderPos::AbsentCaseVariantPresent)], proptest::collection::vec((0usize..64).prop_map(wiring_from), 2..4), prop_oneof![8 => Just(Sink::Healthy), 1 => Just(Sink::DevFull), 1 => Just(Sink::ClosedPipe)], any::<u64>())
        .prop_flat_map(|(req, plain, chunks, pos, wirings, sink, sel)| (Just((req, plain, chunks, pos, wirings, sink, sel)), proptest::option::weighted(0.35, any::<u16>()), prop_oneof![3 => Just(0u8), 1 => Just(1u8), 1 => Just(2u8)]))
        .prop_map(|((req, plain, chunks, pos, mut wirings, sink, sel), prior_out, env_decoy)| { wirings.insert(0, wiring_from(0)); Case { req, plain, chunks, pos, wirings, sink, sel, prior_out: prior_out.map(|x| x % 3000), env_decoy, in_name: if sel % 4 == 0 { (sel >> 8) as u8 } else { 0 }, typed: sel % 3 == 0, out_kinds: if sel % 5 < 2 { vec![1 + ((sel >> 12) % 3) as u8] } else { vec![] }, in_kinds: if sel % 7 < 2 { vec![1 + ((sel >> 16) % 4) as u8] } else { vec![] }, names: if sel % 11 < 3 { 1 + ((sel >> 20) % 2) as u8 } else { 0 } } })
}

pub fn run(ctx: &Ctx) {
    set_rule("C12", "logical request (encrypt, decrypt, password encrypt, password decrypt; for decryption an authentic file or one damaged in the first chunk / a later chunk / truncated / extended / for another recipient / of the other mode / garbage; wrong password) x keyring composition (sender entry first / last / absent among 2..4 entries) x wiring {file argument | stdin} x {-o | stdout} x {-k | KESTREL_KEYRING} x {long | short options} x {command | alias} x option order, plus -o targets that are not regular files (/dev/stdout bound to a pipe, a named pipe with a reader, /dev/null), /dev/full and closed-pipe sinks, a longer file already present at the -o path, and an unrelated KESTREL_KEYRING set while -k is given. Every case runs the canonical wiring and 2-3 generated ones; SSE: all 64 wirings for one request of each kind. Oracles: exit 0 <=> the request completes by construction, exit 1 has an Error: line; on success the delivered bytes are the plaintext (for encryption: the in-process decryptor returns the plaintext and the --from key); the sender line names the matching entry or reports the key as unknown with its encoding; all wirings of a request agree. Non-trivial = failing request, or stdin/stdout/env wiring, or sender not first; distinct by hash of the case");
    ctx.assume("Linux, no terminal; passwords via --env-pass");
    ctx.shrink_iters.store(30, std::sync::atomic::Ordering::Relaxed);
    let _ = ids();
    let all: Vec<Wiring> = (0..64).map(wiring_from).collect();
    let mut sse = Vec::new();
    for (i, req) in [Req::KeyEnc, Req::KeyDec(FileKind::Authentic), Req::KeyDec(FileKind::CorruptLater), Req::PassEnc, Req::PassDec(FileKind::Authentic)].into_iter().enumerate() {
        for chunk in all.chunks(8) { sse.push(Case { req, plain: Plain { len: 23, seed: ctx.seed + i as u64 }, chunks: vec![5, 6, 7], pos: SenderPos::Last, wirings: std::iter::once(wiring_from(0)).chain(chunk.iter().cloned()).collect(), sink: Sink::Healthy, sel: ctx.seed, prior_out: None, env_decoy: 0, in_name: 0, typed: false, out_kinds: vec![], in_kinds: vec![], names: 0 }); }
    }
    // the empty plaintext and the look-alike keyring entry, deterministically
    for req in [Req::KeyDec(FileKind::Authentic), Req::PassDec(FileKind::Authentic), Req::KeyEnc, Req::PassEnc] { sse.push(Case { req, plain: Plain { len: 0, seed: 1 }, chunks: vec![], pos: SenderPos::First, wirings: vec![wiring_from(0), wiring_from(2), wiring_from(3)], sink: Sink::Healthy, sel: 5, prior_out: Some(40), env_decoy: 0, in_name: 0, typed: false, out_kinds: vec![], in_kinds: vec![], names: 0 }); }
    sse.push(Case { req: Req::KeyDec(FileKind::Authentic), plain: Plain { len: 40, seed: 2 }, chunks: vec![9], pos: SenderPos::AbsentCaseVariantPresent, wirings: vec![wiring_from(0), wiring_from(6)], sink: Sink::Healthy, sel: 6, prior_out: None, env_decoy: 2, in_name: 0, typed: false, out_kinds: vec![], in_kinds: vec![], names: 0 });
    for (i, req) in [Req::KeyDec(FileKind::Authentic), Req::KeyEnc, Req::PassDec(FileKind::Authentic), Req::PassEnc].into_iter().enumerate() { for in_name in 1..8u8 { sse.push(Case { req, plain: Plain { len: 25, seed: 30 + i as u64 }, chunks: vec![9], pos: SenderPos::First, wirings: vec![wiring_from(0), wiring_from(32), wiring_from(1)], sink: Sink::Healthy, sel: 8, prior_out: None, env_decoy: 0, in_name, typed: false, out_kinds: vec![], in_kinds: vec![], names: 0 }); } }
    for (i, req) in [Req::KeyDec(FileKind::Authentic), Req::KeyEnc, Req::PassDec(FileKind::Authentic), Req::PassEnc, Req::KeyDec(FileKind::CorruptLater)].into_iter().enumerate() { sse.push(Case { req, plain: Plain { len: 30, seed: 3 + i as u64 }, chunks: vec![8, 9], pos: SenderPos::Last, wirings: vec![wiring_from(0), wiring_from(2), wiring_from(8)], sink: Sink::Healthy, sel: 7, prior_out: Some(500), env_decoy: 1 + (i as u8 % 2), in_name: 0, typed: false, out_kinds: vec![], in_kinds: vec![], names: 0 }); }
    for (i, req) in [Req::KeyEnc, Req::KeyDec(FileKind::Authentic), Req::KeyDec(FileKind::CorruptLater), Req::PassEnc, Req::PassDec(FileKind::Authentic), Req::PassDec(FileKind::CorruptFirst)].into_iter().enumerate() { for len in [30usize, 70_000] { sse.push(Case { req, plain: Plain { len, seed: 50 + i as u64 }, chunks: vec![], pos: SenderPos::First, wirings: vec![wiring_from(0)], sink: Sink::Healthy, sel: 9 + 64 * 21 + 4096 * 42, prior_out: None, env_decoy: 0, in_name: 0, typed: false, out_kinds: vec![1, 2, 3], in_kinds: vec![1, 2, 3, 4], names: 0 }); } }
    for (i, req) in [Req::KeyEnc, Req::KeyDec(FileKind::Authentic), Req::KeyDec(FileKind::CorruptLater)].into_iter().enumerate() { for names in 1..=2u8 { for pos in [SenderPos::First, SenderPos::Last] { sse.push(Case { req, plain: Plain { len: 33, seed: 60 + i as u64 }, chunks: vec![], pos, wirings: vec![wiring_from(0), wiring_from(4), wiring_from(8)], sink: Sink::Healthy, sel: 12, prior_out: None, env_decoy: 0, in_name: 0, typed: names == 2, out_kinds: vec![], in_kinds: vec![], names }); } } }
    ctx.sse_vec("all_wirings", "5 requests x all 64 wiring combinations (8 per case, each compared with the canonical wiring)", sse, check);
    ctx.pbt("requests_x_wirings", ctx.n(320, 8_000), strat, check);
}
