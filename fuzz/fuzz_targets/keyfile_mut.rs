#![no_main]
//! Structured: the fuzz bytes decode to a mutation program over an in-target pool of authentic key-mode files;
//! the mutated file goes through key_decrypt under a dribbling reader; C03 and C04 oracles are evaluated.
use kverif_fuzz::{mutate::{self, MCase, Mutant, Op, PoolSel}, on, sio::{RSched, WSched}, Bytes};
use libfuzzer_sys::fuzz_target;

fuzz_target!(|data: &[u8]| {
    let mut b = Bytes::new(data);
    let sel = if b.u8() & 1 == 0 { PoolSel::KeySmall } else { PoolSel::HookPass };
    let pool = mutate::pool(sel, 1);
    let base = b.u8() as usize % pool.files.len();
    let mut ops = Vec::new();
    while !b.done() && ops.len() < 8 {
        ops.push(match b.u8() % 9 {
            0 => Op::FlipBit { pos: b.u16() as usize }, 1 => Op::SetByte { pos: b.u16() as usize, val: b.u8() }, 2 => Op::Truncate { len: b.u16() as usize },
            3 => { let n = b.u8() as usize % 40; Op::Append { bytes: b.take(n).to_vec() } }
            4 => { let n = b.u8() as usize % 7; Op::Records { seq: (0..n).map(|_| (if b.u8() & 3 == 0 { b.u8() as usize } else { base }, b.u8() as usize)).collect() } }
            5 => Op::SetFlag { rec: b.u8() as usize, val: b.u32() }, 6 => Op::SetLen { rec: b.u8() as usize, val: b.u32(), resize: b.u8() & 1 == 1 },
            7 => Op::SetCounter { rec: b.u8() as usize, val: b.u64() }, _ => Op::Header { field: b.u8(), from: b.u8() as usize },
        });
    }
    let c = MCase { sel, pool_seed: 1, m: Mutant { base, ops }, full: true, rs: RSched::dribble(3), ws: WSched::all(), fault: None };
    let (p, f, res, sh, shift) = mutate::present(&c);
    let bf = &p.files[base];
    if on("C03") { if let Err(m) = mutate::judge_c03(&p, bf, &f, &res, &sh.sink.borrow()) { panic!("C03: {}", m); } }
    if on("C04") { if let Err(m) = mutate::judge_c04(&p, bf, &f, &res, &sh, None, shift) { panic!("C04: {}", m); } }
});
