//! C14 — generating a key into an existing keyring keeps every existing key.
use crate::cli::{self, In, Sandbox};
use crate::core::{ok, set_rule, CheckResult, Ctx};
use crate::ensure;
use crate::keyring::Keyring;
use proptest::prelude::*;
use serde::{Deserialize, Serialize};

#[derive(Clone, Debug, Serialize, Deserialize)]
pub enum Initial { Absent, Empty, Keyring { entries: usize, trailing_newline: bool, comments: bool, with_private: bool } }
#[derive(Clone, Debug, Serialize, Deserialize)]
pub struct History { pub initial: Initial, pub gens: Vec<(String, String)>, pub seed: u64, pub use_keys: bool }

fn initial_text(i: &Initial, seed: u64) -> Option<String> {
    match i {
        Initial::Absent => None, Initial::Empty => Some(String::new()),
        Initial::Keyring { entries, trailing_newline, comments, with_private } => {
            let mut s = String::new();
            if *comments { s.push_str("# my keyring\n\n"); }
            for e in 0..*entries {
                let sk = crate::gen::key32(seed.wrapping_add(e as u64), "c14-init"); let pk = kspec::x25519_base(&sk);
                let locked = kspec::lock_private_key_with(&crate::gen::key32(e as u64, "c14-k"), &sk, &crate::gen::key32(e as u64, "c14-s"));
                if e > 0 { s.push('\n'); }
                s.push_str(&kspec::keyring_entry(&format!("existing-{}", e), &kspec::encode_public_key(&pk), if *with_private { Some(&locked) } else { None }));
                if *comments && e == 0 { s.push_str("# a friend\n"); }
            }
            if !*trailing_newline { while s.ends_with('\n') { s.pop(); } }
            Some(s)
        }
    }
}

pub fn check(h: &History) -> CheckResult {
    let sb = Sandbox::new();
    let f = sb.path("keys.txt");
    let init = initial_text(&h.initial, h.seed);
    if let Some(t) = &init { std::fs::write(&f, t).map_err(|e| e.to_string())?; }
    let mut prev: Vec<u8> = init.clone().unwrap_or_default().into_bytes();
    let mut made: Vec<(String, String)> = Vec::new();
    for (raw_name, pw) in &h.gens {
        let name = raw_name.trim().to_string();
        if name.contains('\n') || name.starts_with("existing-") || made.iter().any(|(n, _)| *n == name) { continue; }
        let r = sb.cmd(&["key", "generate", "-o", "keys.txt", "--env-pass"]).env("KESTREL_PASSWORD", pw).stdin(In::Bytes(format!("{}\n", name).into_bytes())).run();
        if r.code != Some(0) {
            // the tool decides which names it takes; a refusal must leave the file alone (C13 covers that), and is not a C14 matter
            ensure!(r.code == Some(1), "key generate ended abnormally: {}", r.describe());
            ensure!(!Keyring::valid_key_name(&name), "key generate failed for an acceptable name {:?}: {}", name, r.describe());
            continue;
        }
        let now = std::fs::read(&f).map_err(|e| format!("key file missing after a successful key generate: {}", e))?;
        ensure!(now.len() > prev.len() && now[..prev.len()] == prev[..], "key generate -o on an existing file did not preserve its contents: {} bytes before, {} bytes after, earlier contents {} a prefix (generation #{} into {:?})", prev.len(), now.len(), if now.len() >= prev.len() && now[..prev.len()] == prev[..] { "are" } else { "are NOT" }, made.len() + 1, h.initial);
        made.push((name.clone(), pw.clone()));
        let text = String::from_utf8(now.clone()).map_err(|_| "key file is not UTF-8".to_string())?;
        let kr = Keyring::new(&text).map_err(|e| format!("key file no longer parses as a keyring after generating {:?}: {}", name, e))?;
        for (n, _) in &made { ensure!(kr.get_key(n).is_some(), "key {:?} generated earlier is no longer in the file", n); }
        if let Initial::Keyring { entries, .. } = &h.initial { for e in 0..*entries { ensure!(kr.get_key(&format!("existing-{}", e)).is_some(), "pre-existing key existing-{} is no longer in the file", e); } }
        // the new key is usable with its own password and matches its PublicKey line
        let k = kr.get_key(&name).unwrap();
        let esk = k.private_key.as_ref().ok_or("generated entry has no private key")?;
        let sk = Keyring::unlock_private_key(esk, pw.as_bytes()).map_err(|_| format!("generated key {:?} does not unlock with its own password", name))?;
        let pk = Keyring::decode_public_key(&k.public_key).map_err(|e| e.to_string())?;
        ensure!(sk.to_public().map_err(|_| "to_public failed")?.as_bytes() == pk.as_bytes(), "PublicKey line of {:?} is not the public key of its private key", name);
        prev = now;
    }
    if h.use_keys && made.len() >= 2 {
        // every key generated so far is usable: encrypt from the first to the last and back
        let (from, to) = (&made[0], &made[made.len() - 1]);
        sb.write("msg.txt", b"use the keys");
        let r = sb.cmd(&["encrypt", "msg.txt", "-t", &to.0, "-f", &from.0, "-o", "msg.ktl", "-k", "keys.txt", "--env-pass"]).env("KESTREL_PASSWORD", &from.1).run();
        ensure!(r.code == Some(0), "encrypt with generated keys failed: {}", r.describe());
        let r = sb.cmd(&["decrypt", "msg.ktl", "-t", &to.0, "-o", "msg.out", "-k", "keys.txt", "--env-pass"]).env("KESTREL_PASSWORD", &to.1).run();
        ensure!(r.code == Some(0) && sb.read("msg.out").as_deref() == Some(&b"use the keys"[..]), "decrypt with generated keys failed: {}", r.describe());
        ensure!(r.stderr_s().contains(&format!("File from: {}", from.0)), "decrypt did not name the generated sender key: {}", r.stderr_s());
    }
    let nontrivial = made.len() >= 2 || (made.len() == 1 && !matches!(h.initial, Initial::Absent));
    ok(nontrivial, format!("{}gens/{}", made.len(), match &h.initial { Initial::Absent => "absent", Initial::Empty => "empty", Initial::Keyring { trailing_newline: true, .. } => "keyring", _ => "keyring-no-trailing-newline" }))
}

pub fn strat() -> impl Strategy<Value = History> {
    let initial = prop_oneof![2 => Just(Initial::Absent), 1 => Just(Initial::Empty), 4 => (1usize..4, any::<bool>(), any::<bool>(), any::<bool>()).prop_map(|(entries, trailing_newline, comments, with_private)| Initial::Keyring { entries, trailing_newline, comments, with_private })];
    (initial, proptest::collection::vec((super::c17::name_strategy(), crate::gen::env_password_strategy()), 1..5), any::<u64>(), prop::bool::weighted(0.35)).prop_map(|(initial, gens, seed, use_keys)| History { initial, gens, seed, use_keys })
}

pub fn run(ctx: &Ctx) {
    set_rule("C14", "histories: initial state of F in {absent, empty, specification-written keyring of 1..3 entries with/without trailing newline, with/without comment and blank lines, with/without private keys} followed by 1..4 `kestrel key generate -o F --env-pass` runs of the binary built from the working tree, with distinct names from the domain key generation accepts and arbitrary UTF-8 passwords (incl. empty and > 64 bytes). After every step: earlier bytes are a prefix of the new bytes, the file parses with the working tree's Keyring::new, every name so far is present, the new key unlocks under its own password and matches its PublicKey line; finally encrypt/decrypt between generated keys. Non-trivial = >= 2 generations or a generation into an existing file; distinct by hash of the history");
    ctx.assume("Linux; no terminal (the name is supplied on stdin, the password through KESTREL_PASSWORD)");
    ctx.shrink_iters.store(40, std::sync::atomic::Ordering::Relaxed);
    ctx.pbt("keygen_histories", ctx.n(160, 2_500), strat, check);
}
