use crate::core::Ctx;
pub mod c01;
pub mod c03;
pub mod c04;

pub fn run(ctx: &Ctx) -> bool {
    match ctx.id.as_str() {
        "C01" => c01::run(ctx),
        "C03" => c03::run(ctx),
        "C04" => c04::run(ctx),
        _ => return false,
    }
    true
}
pub fn tool(_name: &str, _args: &[String]) -> i32 { 2 }
