//! C11 — any file size is streamed: constant memory, incremental output.
use crate::alloc;
use crate::core::{ok, set_rule, CheckResult, Ctx};
use crate::gen::{self, CS};
use crate::kx;
use kestrel_crypto as kc;
use proptest::prelude::*;
use serde::{Deserialize, Serialize};
use std::io::{self, Read, Write};
use std::sync::{Arc, Condvar, Mutex};

#[derive(Clone, Copy, Debug, Serialize, Deserialize, PartialEq)]
pub enum Mode { Key, Pass }
#[derive(Clone, Debug, Serialize, Deserialize)]
pub struct Case { pub size: u64, pub mode: Mode, pub seed: u64, pub read_var: u8 }

/// Plaintext source: a function of the offset, produced on the fly. Checks the encrypt-side lag inline.
struct Source { seed: u64, size: u64, pos: u64, var: u8, calls: u64, written: Arc<std::sync::atomic::AtomicU64>, hdr: u64, lag_violation: Option<String>, nchunks: u64, ends: [u64; 8], last_end: u64 }
impl Read for Source {
    fn read(&mut self, buf: &mut [u8]) -> io::Result<usize> {
        // incremental output: once more than two further chunks have been consumed, chunk j must be on the sink
        // every read that returned data is one input chunk (the encryptor seals what one read gave it); `ends`
        // remembers where the output record of each recent chunk must end
        let m = self.nchunks;
        if m >= 3 && self.lag_violation.is_none() {
            let need = self.ends[((m - 3) % 8) as usize];
            let have = self.written.load(std::sync::atomic::Ordering::SeqCst);
            if have < need { self.lag_violation = Some(format!("encryption had consumed {} input chunks ({} bytes) but only {} output bytes were written (the record of chunk {} ends at byte {})", m, self.pos, have, m - 3, need)); }
        }
        self.calls += 1;
        let left = self.size - self.pos;
        let cap = match self.var { 0 => buf.len(), 1 => 1 + (gen_u64(self.seed, self.calls) % buf.len() as u64) as usize, 3 => 512.min(buf.len()), _ => (buf.len() / 2 + 1).min(buf.len()) };
        let n = (cap as u64).min(left) as usize;
        gen::fill_at(self.seed, self.pos, &mut buf[..n]); self.pos += n as u64;
        if n > 0 { self.last_end += 32 + n as u64; self.ends[(self.nchunks % 8) as usize] = self.last_end; self.nchunks += 1; }
        Ok(n)
    }
}
fn gen_u64(seed: u64, i: u64) -> u64 { let mut b = [0u8; 8]; gen::fill_at(seed ^ 0xABCD, i * 8, &mut b); u64::from_le_bytes(b) }

/// Bounded in-process pipe (pre-allocated ring, no allocation while in use).
struct Ring { buf: Vec<u8>, head: usize, len: usize, closed: bool }
struct Pipe { m: Mutex<Ring>, cv: Condvar }
struct PipeW { p: Arc<Pipe>, total: Arc<std::sync::atomic::AtomicU64> }
struct PipeR { p: Arc<Pipe>, consumed: u64, plain_written: Arc<std::sync::atomic::AtomicU64>, hdr: u64, full_chunks: bool, lag_violation: Option<String> }
impl Write for PipeW {
    fn write(&mut self, b: &[u8]) -> io::Result<usize> {
        let mut r = self.p.m.lock().unwrap();
        loop { let cap = r.buf.len(); if r.closed { return Err(io::Error::new(io::ErrorKind::BrokenPipe, "reader gone")); } if r.len < cap { break; } r = self.p.cv.wait(r).unwrap(); }
        let cap = r.buf.len(); let n = b.len().min(cap - r.len);
        for (i, &x) in b[..n].iter().enumerate() { let idx = (r.head + r.len + i) % cap; r.buf[idx] = x; }
        r.len += n; self.total.fetch_add(n as u64, std::sync::atomic::Ordering::SeqCst); self.p.cv.notify_all(); Ok(n)
    }
    fn flush(&mut self) -> io::Result<()> { Ok(()) }
}
impl Read for PipeR {
    fn read(&mut self, b: &mut [u8]) -> io::Result<usize> {
        if self.full_chunks && self.consumed >= self.hdr && self.lag_violation.is_none() {
            let m = (self.consumed - self.hdr) / (CS as u64 + 32);
            if m >= 3 { let need = (m - 2) * CS as u64; let have = self.plain_written.load(std::sync::atomic::Ordering::SeqCst);
                if have < need { self.lag_violation = Some(format!("decryption had consumed {} ciphertext records but only {} plaintext bytes were written (chunk {} ends at byte {})", m, have, m - 3, need)); } }
        }
        let mut r = self.p.m.lock().unwrap();
        loop { if r.len > 0 { break; } if r.closed { return Ok(0); } r = self.p.cv.wait(r).unwrap(); }
        let cap = r.buf.len(); let n = b.len().min(r.len);
        for i in 0..n { b[i] = r.buf[(r.head + i) % cap]; }
        r.head = (r.head + n) % cap; r.len -= n; self.consumed += n as u64; self.p.cv.notify_all(); Ok(n)
    }
}
/// Final sink: compares every buffer with the generator at its offset.
struct Verify { seed: u64, pos: u64, bad: Option<u64>, written: Arc<std::sync::atomic::AtomicU64> }
impl Write for Verify {
    fn write(&mut self, b: &[u8]) -> io::Result<usize> {
        let mut tmp = [0u8; 4096]; let mut off = 0;
        while off < b.len() { let n = (b.len() - off).min(4096); gen::fill_at(self.seed, self.pos + off as u64, &mut tmp[..n]); if tmp[..n] != b[off..off + n] && self.bad.is_none() { self.bad = Some(self.pos + off as u64); } off += n; }
        self.pos += b.len() as u64; self.written.store(self.pos, std::sync::atomic::Ordering::SeqCst); Ok(b.len())
    }
    fn flush(&mut self) -> io::Result<()> { Ok(()) }
}

pub struct Measure { pub enc_peak: isize, pub dec_peak: isize, pub enc_largest: usize, pub dec_largest: usize, pub enc_allocs: usize, pub dec_allocs: usize }
const PW: &[u8] = b"c11";
pub fn run_pipeline(c: &Case) -> Result<Measure, String> {
    let s = kx::ident(c.seed, "S"); let r = kx::ident(c.seed, "R");
    let hdr: u64 = if c.mode == Mode::Key { 132 } else { 36 };
    let pipe = Arc::new(Pipe { m: Mutex::new(Ring { buf: vec![0u8; 1 << 20], head: 0, len: 0, closed: false }), cv: Condvar::new() });
    let ct_total = Arc::new(std::sync::atomic::AtomicU64::new(0)); let plain_written = Arc::new(std::sync::atomic::AtomicU64::new(0));
    let (p2, ctt2, pw2, c2, r2) = (pipe.clone(), ct_total.clone(), plain_written.clone(), c.clone(), r.clone());
    let dec = std::thread::spawn(move || {
        let mut rd = PipeR { p: p2.clone(), consumed: 0, plain_written: pw2.clone(), hdr, full_chunks: c2.read_var == 0, lag_violation: None };
        let mut sink = Verify { seed: c2.seed, pos: 0, bad: None, written: pw2 };
        let (rsk, rpk) = (kx::sk(&r2.sk), kx::pk(&r2.pk));
        alloc::reset(1 << 20); let base = alloc::live();
        let res: Result<(), String> = match c2.mode { Mode::Key => kc::decrypt::key_decrypt(&mut rd, &mut sink, &rsk, &rpk, kc::AsymFileFormat::V1).map(|_| ()).map_err(|e| e.to_string()), Mode::Pass => kc::decrypt::pass_decrypt(&mut rd, &mut sink, PW, kc::PassFileFormat::V1).map_err(|e| e.to_string()) };
        let (peak, largest, allocs) = (alloc::peak() - base, alloc::largest(), alloc::total_allocs());
        { let mut g = p2.m.lock().unwrap(); g.closed = true; p2.cv.notify_all(); }
        let _ = ctt2;
        (res, peak, largest, allocs, sink.pos, sink.bad, rd.lag_violation)
    });
    let mut src = Source { seed: c.seed, size: c.size, pos: 0, var: c.read_var, calls: 0, written: ct_total.clone(), hdr, lag_violation: None, nchunks: 0, ends: [0; 8], last_end: hdr };
    let mut w = PipeW { p: pipe.clone(), total: ct_total.clone() };
    let (ssk, spk, rpk) = (kx::sk(&s.sk), kx::pk(&s.pk), kx::pk(&r.pk));
    alloc::reset(1 << 20); let base = alloc::live();
    let eres: Result<(), String> = match c.mode { Mode::Key => kc::encrypt::key_encrypt(&mut src, &mut w, &ssk, &spk, &rpk, None, None, None, kc::AsymFileFormat::V1).map_err(|e| e.to_string()), Mode::Pass => kc::encrypt::pass_encrypt(&mut src, &mut w, PW, gen::key32(c.seed, "salt"), kc::PassFileFormat::V1).map_err(|e| e.to_string()) };
    let (enc_peak, enc_largest, enc_allocs) = (alloc::peak() - base, alloc::largest(), alloc::total_allocs());
    { let mut g = pipe.m.lock().unwrap(); g.closed = true; pipe.cv.notify_all(); }
    let (dres, dec_peak, dec_largest, dec_allocs, out_len, bad, dlag) = dec.join().map_err(|_| "decrypt thread panicked".to_string())?;
    eres.map_err(|e| format!("encryption of {} bytes failed: {}", c.size, e))?;
    dres.map_err(|e| format!("decryption of the stream for {} bytes failed: {}", c.size, e))?;
    if let Some(b) = bad { return Err(format!("byte {} delivered to the final sink differs from the input", b)); }
    if out_len != c.size { return Err(format!("{} bytes in, {} bytes out", c.size, out_len)); }
    if let Some(l) = src.lag_violation { return Err(l); }
    if let Some(l) = dlag { return Err(l); }
    Ok(Measure { enc_peak, dec_peak, enc_largest, dec_largest, enc_allocs, dec_allocs })
}

static BASELINE: Mutex<Vec<(Mode, isize, isize)>> = Mutex::new(Vec::new());
fn baseline(mode: Mode) -> Result<(isize, isize), String> {
    if let Some(b) = BASELINE.lock().unwrap().iter().find(|b| b.0 == mode) { return Ok((b.1, b.2)); }
    let m = run_pipeline(&Case { size: 256 * 1024, mode, seed: 1, read_var: 0 })?;
    BASELINE.lock().unwrap().push((mode, m.enc_peak, m.dec_peak)); Ok((m.enc_peak, m.dec_peak))
}
pub fn check(c: &Case) -> CheckResult {
    let (be, bd) = baseline(c.mode)?;
    let m = run_pipeline(c)?;
    let cap: isize = (4 << 20) + if c.mode == Mode::Pass { 34 << 20 } else { 0 };
    for (dir, peak, base) in [("encryption", m.enc_peak, be), ("decryption", m.dec_peak, bd)] {
        if peak > base + 128 * 1024 { return Err(format!("peak heap during {} of {} bytes is {} bytes, {} bytes for a 256 KiB input: memory grows with the input", dir, c.size, peak, base)); }
        if peak > cap { return Err(format!("peak heap during {} of {} bytes is {} bytes (cap {})", dir, c.size, peak, cap)); }
    }
    ok(c.size >= 3 * CS as u64, format!("{:?}/{}{}", c.mode, match c.size { 0..=196_607 => "<3chunks", 196_608..=16_777_215 => "<16MiB", 16_777_216..=268_435_455 => "<256MiB", _ => ">=256MiB" }, if c.read_var == 0 { "/full-reads" } else { "/short-reads" }))
}

/// A complete authentic file followed by `tail` further bytes produced on the fly: rejecting it must not cost
/// memory that grows with the amount of data that follows the final chunk.
#[derive(Clone, Debug, Serialize, Deserialize)]
pub struct TailCase { pub tail: u64, pub mode: Mode, pub seed: u64 }
struct TailReader { head: Vec<u8>, pos: usize, tail_left: u64, pulled_after: u64 }
impl Read for TailReader {
    fn read(&mut self, buf: &mut [u8]) -> io::Result<usize> {
        if self.pos < self.head.len() { let n = buf.len().min(self.head.len() - self.pos); buf[..n].copy_from_slice(&self.head[self.pos..self.pos + n]); self.pos += n; return Ok(n); }
        let n = (buf.len() as u64).min(self.tail_left) as usize; for b in buf[..n].iter_mut() { *b = 0x41; } self.tail_left -= n as u64; self.pulled_after += n as u64; Ok(n)
    }
}
pub fn check_tail(c: &TailCase) -> CheckResult {
    let (_, bd) = baseline(c.mode)?;
    let s = kx::ident(c.seed, "S"); let r = kx::ident(c.seed, "R"); let plain = gen::bytes_from(c.seed, 70_000);
    let head = match c.mode { Mode::Key => kx::key_encrypt_simple(&plain, &s, &r.pk, None, None)?, Mode::Pass => { let (res, sh) = kx::pass_encrypt(&plain, &crate::sio::RSched::full(), &crate::sio::WSched::all(), None, PW, gen::key32(c.seed, "salt")); if !res.is_ok() { return Err(format!("{:?}", res)); } sh.sink.take() } };
    let mut rd = TailReader { head, pos: 0, tail_left: c.tail, pulled_after: 0 };
    let mut sink = Verify { seed: c.seed, pos: 0, bad: None, written: Arc::new(std::sync::atomic::AtomicU64::new(0)) };
    let (rsk, rpk) = (kx::sk(&r.sk), kx::pk(&r.pk));
    alloc::reset(1 << 20); let base = alloc::live();
    let ok_ = match c.mode { Mode::Key => kc::decrypt::key_decrypt(&mut rd, &mut sink, &rsk, &rpk, kc::AsymFileFormat::V1).is_ok(), Mode::Pass => kc::decrypt::pass_decrypt(&mut rd, &mut sink, PW, kc::PassFileFormat::V1).is_ok() };
    let peak = alloc::peak() - base;
    if c.tail > 0 && ok_ { return Err(format!("a file followed by {} extra bytes decrypted successfully", c.tail)); }
    if peak > bd + 128 * 1024 { return Err(format!("peak heap while decrypting a file followed by {} bytes is {} bytes; {} bytes for a 256 KiB file: memory grows with the input", c.tail, peak, bd)); }
    ok(c.tail >= 3 * CS as u64, format!("{:?}/tail{}", c.mode, if c.tail >= 1 << 20 { ">=1MiB" } else { "<1MiB" }))
}

/// A sink that buffers like `std::io::BufWriter` (what a caller wraps a file or socket in): bytes count as delivered only
/// when the buffer overflows or `flush` is called. The incremental-output bound is about what has reached the sink.
#[derive(Clone, Debug, Serialize, Deserialize)]
pub struct BufCase { pub size: usize, pub pass: bool, pub cap: usize, pub decrypt: bool, pub seed: u64 }
struct BufSink { cap: usize, pending: usize, delivered: Arc<std::sync::atomic::AtomicU64>, flushes: u64 }
impl Write for BufSink {
    fn write(&mut self, b: &[u8]) -> io::Result<usize> {
        if self.pending + b.len() > self.cap { self.delivered.fetch_add(self.pending as u64, std::sync::atomic::Ordering::SeqCst); self.pending = 0; }
        if b.len() >= self.cap { self.delivered.fetch_add(b.len() as u64, std::sync::atomic::Ordering::SeqCst); } else { self.pending += b.len(); }
        Ok(b.len())
    }
    fn flush(&mut self) -> io::Result<()> { self.flushes += 1; self.delivered.fetch_add(self.pending as u64, std::sync::atomic::Ordering::SeqCst); self.pending = 0; Ok(()) }
}
struct LagReader<'a> { data: &'a [u8], pos: usize, hdr: usize, delivered: Arc<std::sync::atomic::AtomicU64>, lag_violation: Option<String> }
impl<'a> Read for LagReader<'a> {
    fn read(&mut self, b: &mut [u8]) -> io::Result<usize> {
        if self.pos >= self.hdr && self.lag_violation.is_none() {
            let m = ((self.pos - self.hdr) / (CS + 32)) as u64;
            if m >= 3 { let need = (m - 2) * CS as u64; let have = self.delivered.load(std::sync::atomic::Ordering::SeqCst);
                if have < need { self.lag_violation = Some(format!("decryption into a buffering sink had consumed {} ciphertext records but only {} plaintext bytes had reached the sink (chunk {} ends at byte {})", m, have, m - 3, need)); } }
        }
        let n = b.len().min(self.data.len() - self.pos); b[..n].copy_from_slice(&self.data[self.pos..self.pos + n]); self.pos += n; Ok(n)
    }
}
pub fn check_buffered(c: &BufCase) -> CheckResult {
    let s = kx::ident(c.seed, "S"); let r = kx::ident(c.seed, "R"); let hdr: u64 = if c.pass { 36 } else { 132 };
    let delivered = Arc::new(std::sync::atomic::AtomicU64::new(0));
    let mut sink = BufSink { cap: c.cap, pending: 0, delivered: delivered.clone(), flushes: 0 };
    if !c.decrypt {
        let mut src = Source { seed: c.seed | 1, size: c.size as u64, pos: 0, var: 0, calls: 0, written: delivered.clone(), hdr, lag_violation: None, nchunks: 0, ends: [0; 8], last_end: hdr };
        let (ssk, spk, rpk) = (kx::sk(&s.sk), kx::pk(&s.pk), kx::pk(&r.pk));
        let res: Result<(), String> = if c.pass { kc::encrypt::pass_encrypt(&mut src, &mut sink, PW, gen::key32(c.seed, "salt"), kc::PassFileFormat::V1).map_err(|e| e.to_string()) } else { kc::encrypt::key_encrypt(&mut src, &mut sink, &ssk, &spk, &rpk, None, None, None, kc::AsymFileFormat::V1).map_err(|e| e.to_string()) };
        res.map_err(|e| format!("encryption into a buffering sink failed: {}", e))?;
        if let Some(l) = src.lag_violation { return Err(format!("buffering sink of {} bytes: {}", c.cap, l)); }
        let total = c.size as u64 + hdr + 32 * ((c.size as u64 + CS as u64 - 1) / CS as u64).max(1);
        if delivered.load(std::sync::atomic::Ordering::SeqCst) != total { return Err(format!("encryption returned but only {} of {} output bytes had reached the buffering sink (no final flush)", delivered.load(std::sync::atomic::Ordering::SeqCst), total)); }
    } else {
        let plain = gen::bytes_from(c.seed | 1, c.size);
        let ct = if c.pass { let (res, sh) = kx::pass_encrypt(&plain, &crate::sio::RSched::full(), &crate::sio::WSched::all(), None, PW, gen::key32(c.seed, "salt")); if !res.is_ok() { return Err(format!("{:?}", res)); } sh.sink.take() } else { kx::key_encrypt_simple(&plain, &s, &r.pk, None, None)? };
        let mut rd = LagReader { data: &ct, pos: 0, hdr: hdr as usize, delivered: delivered.clone(), lag_violation: None };
        let (rsk, rpk) = (kx::sk(&r.sk), kx::pk(&r.pk));
        let res: Result<(), String> = if c.pass { kc::decrypt::pass_decrypt(&mut rd, &mut sink, PW, kc::PassFileFormat::V1).map_err(|e| e.to_string()) } else { kc::decrypt::key_decrypt(&mut rd, &mut sink, &rsk, &rpk, kc::AsymFileFormat::V1).map(|_| ()).map_err(|e| e.to_string()) };
        res.map_err(|e| format!("decryption into a buffering sink failed: {}", e))?;
        if let Some(l) = rd.lag_violation { return Err(format!("buffering sink of {} bytes: {}", c.cap, l)); }
        if delivered.load(std::sync::atomic::Ordering::SeqCst) != c.size as u64 { return Err(format!("decryption returned but only {} of {} plaintext bytes had reached the buffering sink (no final flush)", delivered.load(std::sync::atomic::Ordering::SeqCst), c.size)); }
    }
    ok(c.size >= 4 * CS && c.cap > 3 * CS, format!("buffered/{}/{}/cap{}", if c.decrypt { "decrypt" } else { "encrypt" }, if c.pass { "pass" } else { "key" }, if c.cap > 3 * CS { ">3chunks" } else { "<=3chunks" }))
}

/// Process level: the real binary on a large sparse file; peak resident set size (GNU time %M) must not grow with the size.
#[derive(Clone, Debug, Serialize, Deserialize)]
pub struct ProcCase { pub mib: u64, pub pass_mode: bool }
fn timed(args: &[&str], env: &[(&str, &str)], cwd: &std::path::Path) -> Result<(i32, u64, String), String> {
    let mut c = std::process::Command::new("/usr/bin/time"); c.arg("-f").arg("MAXRSS_KB=%M").arg(crate::cli::kestrel_bin()).args(args).env_clear().current_dir(cwd).stdin(std::process::Stdio::null()).stdout(std::process::Stdio::null());
    for (k, v) in env { c.env(k, v); }
    let out = c.output().map_err(|e| format!("cannot run /usr/bin/time: {}", e))?; let err = String::from_utf8_lossy(&out.stderr).into_owned();
    let kb = err.lines().filter_map(|l| l.strip_prefix("MAXRSS_KB=")).filter_map(|v| v.trim().parse::<u64>().ok()).last().ok_or_else(|| format!("no RSS figure in {:?}", err))?;
    Ok((out.status.code().unwrap_or(-1), kb, err))
}
pub fn check_process(c: &ProcCase) -> CheckResult {
    if !std::path::Path::new("/usr/bin/time").exists() { return ok(false, "skipped:no-gnu-time"); }
    let id = super::c13::ids(); let sb = crate::cli::Sandbox::new();
    sb.write("keys.txt", crate::cli::keyring_text(&[(&id.alice, true), (&id.bob, true)]).as_bytes());
    let mut peaks = Vec::new();
    for mib in [1u64, c.mib] {
        let f = std::fs::File::create(sb.path("big.bin")).map_err(|e| e.to_string())?; f.set_len(mib << 20).map_err(|e| e.to_string())?; drop(f);
        let (enc, dec): (Vec<&str>, Vec<&str>) = if c.pass_mode { (vec!["password", "encrypt", "big.bin", "-o", "big.ktl", "--env-pass"], vec!["password", "decrypt", "big.ktl", "-o", "/dev/null", "--env-pass"]) } else { (vec!["encrypt", "big.bin", "-t", "bob", "-f", "alice", "-k", "keys.txt", "-o", "big.ktl", "--env-pass"], vec!["decrypt", "big.ktl", "-t", "bob", "-k", "keys.txt", "-o", "/dev/null", "--env-pass"]) };
        let (pe, pd) = if c.pass_mode { ("pw", "pw") } else { (id.alice.password.as_str(), id.bob.password.as_str()) };
        let (rc, ekb, err) = timed(&enc, &[("KESTREL_PASSWORD", pe)], &sb.dir)?; if rc != 0 { return Err(format!("encrypting {} MiB failed: {}", mib, err)); }
        let clen = std::fs::metadata(sb.path("big.ktl")).map(|m| m.len()).unwrap_or(0); let chunks = (mib << 20) / 65536;
        if clen != (mib << 20) + 32 * chunks + if c.pass_mode { 36 } else { 132 } { return Err(format!("ciphertext of {} MiB is {} bytes", mib, clen)); }
        let (rc, dkb, err) = timed(&dec, &[("KESTREL_PASSWORD", pd)], &sb.dir)?; if rc != 0 { return Err(format!("decrypting {} MiB failed: {}", mib, err)); }
        peaks.push((ekb, dkb));
    }
    // the same file named in two spellings as input and output (what the tool then does with the data is not the
    // point here): memory must still not depend on the size
    let mut alias = Vec::new();
    for mib in [1u64, c.mib] {
        let f = std::fs::File::create(sb.path("alias.bin")).map_err(|e| e.to_string())?; f.set_len(mib << 20).map_err(|e| e.to_string())?; drop(f);
        let (_rc, kb, _err) = timed(&["password", "encrypt", "alias.bin", "-o", "./alias.bin", "--env-pass"], &[("KESTREL_PASSWORD", "pw")], &sb.dir)?; alias.push(kb);
    }
    if alias[1] > alias[0] + 8192 { return Err(format!("peak resident memory grows with the file when input and output name the same file in two spellings: {} KB -> {} KB (1 MiB -> {} MiB)", alias[0], alias[1], c.mib)); }
    let ((e1, d1), (en, dn)) = (peaks[0], peaks[1]);
    if en > e1 + 8192 || dn > d1 + 8192 { return Err(format!("peak resident memory of the tool grows with the file: encrypt {} KB -> {} KB, decrypt {} KB -> {} KB (1 MiB -> {} MiB)", e1, en, d1, dn, c.mib)); }
    if en > 100 * 1024 || dn > 100 * 1024 { return Err(format!("peak resident memory above 100 MiB (encrypt {} KB, decrypt {} KB)", en, dn)); }
    ok(true, format!("process/{}MiB/{}", c.mib, if c.pass_mode { "pass" } else { "key" }))
}

/// Data typed (or pasted) at a terminal with no FILE operand: the tool may refuse it, but if it takes it, it must stream it
/// like any other input - peak resident memory must not grow with the amount typed.
#[derive(Clone, Debug, Serialize, Deserialize)]
pub struct TtyInput { pub pass_mode: bool, pub mib: u64 }
pub fn check_tty_input(c: &TtyInput) -> CheckResult {
    if !crate::cli::pty_available() || !std::path::Path::new("/usr/bin/time").exists() { return ok(false, "skipped:no-pty-or-time"); }
    let id = super::c13::ids(); let sb = crate::cli::Sandbox::new();
    sb.write("keys.txt", crate::cli::keyring_text(&[(&id.alice, true), (&id.bob, true)]).as_bytes());
    let mut rss = Vec::new();
    for mib in [1u64, c.mib] {
        let line = format!("{}\n", "typed text ".repeat(90)); let n = (mib << 20) / line.len() as u64;
        sb.write("typed", line.repeat(n as usize).as_bytes()); let _ = std::fs::remove_file(sb.path("out.ktl")); let _ = std::fs::remove_file(sb.path("rss.txt"));
        let tool = crate::cli::kestrel_bin(); let tool = tool.to_string_lossy();
        let inner = if c.pass_mode { format!("/usr/bin/time -o rss.txt -f MAXRSS_KB=%M '{}' password encrypt --env-pass -o out.ktl", tool) } else { format!("/usr/bin/time -o rss.txt -f MAXRSS_KB=%M '{}' encrypt -t bob -f alice -k keys.txt --env-pass -o out.ktl", tool) };
        let mut cmd = std::process::Command::new("/usr/bin/timeout"); cmd.args(["120", "/usr/bin/script", "-qec", &inner, "/dev/null"]).env_clear().env("TERM", "dumb").env("SHELL", "/bin/sh").env("KESTREL_PASSWORD", if c.pass_mode { "pw" } else { id.alice.password.as_str() }).current_dir(&sb.dir)
            .stdin(std::fs::File::open(sb.path("typed")).map_err(|e| e.to_string())?).stdout(std::process::Stdio::null()).stderr(std::process::Stdio::null());
        let st = cmd.status().map_err(|e| format!("cannot run script(1): {}", e))?;
        if st.code() == Some(124) { return Err(format!("the tool did not finish within 120 s when {} MiB were typed at its terminal", mib)); }
        let made = sb.read("out.ktl").map(|f| f.len()).unwrap_or(0);
        if st.code() != Some(0) || made == 0 { return ok(true, "tty-input/refused"); }
        let kb = sb.read("rss.txt").and_then(|t| String::from_utf8_lossy(&t).lines().filter_map(|l| l.strip_prefix("MAXRSS_KB=").and_then(|v| v.trim().parse::<u64>().ok())).last()).ok_or("no RSS figure")?;
        rss.push(kb);
    }
    if rss[1] > rss[0] + 6144 { return Err(format!("data typed at the terminal (no FILE operand) is held in memory: peak resident memory {} KB for 1 MiB typed, {} KB for {} MiB", rss[0], rss[1], c.mib)); }
    ok(true, "tty-input/streamed")
}

/// How far ahead of its output does the tool read a regular file? Its stdout is a pipe nobody drains, so it blocks
/// after the pipe buffer is full; /proc/<pid>/fdinfo then tells how much of the input it has consumed.
#[derive(Clone, Debug, Serialize, Deserialize)]
pub struct ReadAhead { pub decrypt: bool }
pub fn check_read_ahead(c: &ReadAhead) -> CheckResult {
    if !std::path::Path::new("/proc/self/fdinfo").exists() { return ok(false, "skipped:no-procfs"); }
    let sb = crate::cli::Sandbox::new(); let size: u64 = 8 << 20;
    let f = std::fs::File::create(sb.path("in.bin")).map_err(|e| e.to_string())?; f.set_len(size).map_err(|e| e.to_string())?; drop(f);
    let input = if c.decrypt { let r = sb.cmd(&["password", "encrypt", "in.bin", "-o", "in.ktl", "--env-pass"]).env("KESTREL_PASSWORD", "pw").run(); if r.code != Some(0) { return Err(r.describe()); } "in.ktl" } else { "in.bin" };
    let mut fds = [0i32; 2]; unsafe { libc::pipe2(fds.as_mut_ptr(), libc::O_CLOEXEC); }
    let mut cmd = std::process::Command::new(crate::cli::kestrel_bin());
    cmd.args(["password", if c.decrypt { "decrypt" } else { "encrypt" }, input, "--env-pass"]).env_clear().env("KESTREL_PASSWORD", "pw").current_dir(&sb.dir).stdin(std::process::Stdio::null()).stderr(std::process::Stdio::null()).stdout(unsafe { <std::process::Stdio as std::os::fd::FromRawFd>::from_raw_fd(fds[1]) });
    let mut child = cmd.spawn().map_err(|e| e.to_string())?; drop(cmd);
    // wait until the position stops moving (the tool is blocked on the full pipe)
    let find_pos = |pid: u32| -> Option<u64> { for e in std::fs::read_dir(format!("/proc/{}/fd", pid)).ok()? { let e = e.ok()?; if std::fs::read_link(e.path()).ok().map(|t| t.ends_with(input)).unwrap_or(false) { let info = std::fs::read_to_string(format!("/proc/{}/fdinfo/{}", pid, e.file_name().to_string_lossy())).ok()?; return info.lines().find_map(|l| l.strip_prefix("pos:").and_then(|v| v.trim().parse().ok())); } } None };
    let (mut last, mut stable) = (None, 0); let t0 = std::time::Instant::now();
    while t0.elapsed().as_secs() < 20 && stable < 5 { std::thread::sleep(std::time::Duration::from_millis(100)); let p = find_pos(child.id()); if p.is_some() && p == last && p != Some(0) { stable += 1; } else { stable = 0; } last = p; }
    let _ = child.kill(); let _ = child.wait(); unsafe { libc::close(fds[0]); }
    let pos = last.ok_or("could not observe the input position of the tool")?;
    // the pipe holds at most 64 KiB (1 MiB if enlarged) of output = about one record; the statement allows two further chunks of input
    let bound = (1u64 << 20) / 4 + 4 * (CS as u64 + 32);
    if pos > bound { return Err(format!("with its output blocked after about one chunk, the tool had already consumed {} bytes ({} chunks) of the input file; the streaming bound is a few chunks", pos, pos / CS as u64)); }
    ok(true, format!("read-ahead/{}/{}chunks", if c.decrypt { "decrypt" } else { "encrypt" }, pos / CS as u64))
}

pub fn run(ctx: &Ctx) {
    set_rule("C11", "(size from {0, 1, 65535, 65536, 65537, 3*65536, ...} and log-uniform up to the tier bound, mode, read-size pattern): the plaintext is a function of the offset produced on the fly, encryption output is piped through a bounded pre-allocated ring into decryption on a second thread, the final sink compares every buffer with the generator. Oracles: thread-local peak live heap of each library call <= the same call on a 256 KiB input + 128 KiB and <= 4 MiB (+34 MiB with scrypt); with full reads, when more than two further chunks have been consumed the earlier chunk has been written (both directions, inline counters); every byte and the total length arrive intact; the same lag bound against sinks that buffer like BufWriter (bytes count only once flushed or spilled). Non-trivial = size >= 3 chunks; distinct by (size, mode, pattern)");
    ctx.assume("the harness objects allocate nothing during the measured calls, so thread-local heap figures are the library's alone");
    crate::core::HANG_LIMIT.store(if ctx.quick() { 300 } else { 3600 }, std::sync::atomic::Ordering::Relaxed);
    let _ = baseline(Mode::Key); let _ = baseline(Mode::Pass);
    let maxlog = if ctx.quick() { 26 } else { 31 };
    let fixed: Vec<Case> = [0u64, 1, 65535, 65536, 65537, 3 * 65536, 3 * 65536 + 1, 10 * 65536, 1 << 24].iter().flat_map(|&size| [Mode::Key, Mode::Pass].into_iter().map(move |mode| Case { size, mode, seed: size + 3, read_var: 0 })).collect();
    ctx.sse_vec("fixed_sizes", "boundary sizes x both modes, full reads", fixed, check);
    ctx.sse_vec("pipe_like_reads", "512-byte and half-buffer reads (a short read is a whole chunk): the lag bound counts chunks, not bytes", vec![Case { size: 300_000, mode: Mode::Key, seed: 11, read_var: 3 }, Case { size: 100_000, mode: Mode::Pass, seed: 12, read_var: 3 }, Case { size: 1 << 20, mode: Mode::Key, seed: 13, read_var: 2 }, Case { size: 1 << 20, mode: Mode::Key, seed: 14, read_var: 1 }], check);
    ctx.pbt("sizes", ctx.n(48, 300), || (prop_oneof![2 => 0u64..400_000, 6 => (17u32..=maxlog, 0u64..1000).prop_map(|(e, m)| (1u64 << e) + ((1u64 << e) * m / 1000))], prop_oneof![3 => Just(Mode::Key), 1 => Just(Mode::Pass)], any::<u64>(), 0u8..4).prop_map(|(size, mode, seed, read_var)| { let size = if read_var == 3 { size.min(2 << 20) } else { size }; Case { size, mode, seed, read_var } }), check);
    { let mut hh = Vec::new(); for mode_pass in [false, true] { for keep in 0..4usize { for lf in [65537u32, 1 << 20, 1 << 27, 1 << 31, u32::MAX] { hh.push(super::c09::Case::HostileHeader { mode_pass, len_field: lf, flag: 0, body: 16, keep_records: keep }); } } }
      ctx.sse_vec("forged_length_fields", "a length field of 65537 .. 2^32-1 after 0..3 authentic 64 KiB records: heap and largest allocation stay at the honest level (shared with C09)", hh, super::c09::check); }
    ctx.sse_vec("data_after_final_chunk", "a complete file followed by 0 B .. 64 MiB of further input, both modes: decryption memory stays at the small-file level", [0u64, 1, 70_000, 1 << 20, 64 << 20].iter().flat_map(|&tail| [Mode::Key, Mode::Pass].map(move |mode| TailCase { tail, mode, seed: tail + 7 })).collect(), check_tail);
    { let mut bc = Vec::new(); for decrypt in [false, true] { for pass in [false, true] { for cap in [8192usize, 1 << 20, 64 << 20] { for size in [0usize, 1, CS, 5 * CS, 20 * CS, 20 * CS + 7] { if pass && size != 20 * CS { continue; } bc.push(BufCase { size, pass, cap, decrypt, seed: (size + cap) as u64 }); } } } }
      ctx.sse_vec("buffering_sinks", "sinks that hold bytes back until their 8 KiB / 1 MiB / 64 MiB buffer overflows or flush is called (BufWriter semantics): every chunk must still have reached the sink before more than two further chunks are consumed, and everything by the time the call returns", bc, check_buffered);
      ctx.pbt("buffering_sinks_random", ctx.n(60, 600), || (0usize..40 * CS, any::<bool>(), prop_oneof![Just(8192usize), 1usize..(4 << 20), Just(usize::MAX / 2)], any::<bool>(), any::<u64>()).prop_map(|(size, decrypt, cap, p, seed)| BufCase { size, pass: p && seed % 8 == 0, cap, decrypt, seed }), check_buffered); }
    let pm = if ctx.quick() { 64 } else { 1024 };
    ctx.sse_vec("process_peak_rss", &format!("the binary on a sparse {} MiB file vs a 1 MiB file, both modes: peak RSS (GNU time) must not grow", pm), vec![ProcCase { mib: pm, pass_mode: false }, ProcCase { mib: pm, pass_mode: true }], check_process);
    ctx.sse_vec("process_terminal_input", "plaintext typed at a (pseudo-)terminal with no FILE operand, 1 MiB vs 12 MiB (thorough 48 MiB), both modes: refused, or streamed with peak RSS independent of the amount", [false, true].map(|pass_mode| TtyInput { pass_mode, mib: if ctx.quick() { 12 } else { 48 } }).to_vec(), check_tty_input);
    ctx.sse_vec("process_read_ahead", "password encrypt / decrypt of an 8 MiB regular file with stdout a pipe nobody drains: input position (procfs) once the tool is blocked", vec![ReadAhead { decrypt: false }, ReadAhead { decrypt: true }], check_read_ahead);
    if !ctx.quick() { ctx.sse_vec("five_gib", "one 5 GiB stream (crosses 2^32 bytes and 65536 chunks)", vec![Case { size: 5 << 30, mode: Mode::Key, seed: 5, read_var: 0 }], check); }
    let b = BASELINE.lock().unwrap(); ctx.put("baseline_peak_256KiB", serde_json::json!(b.iter().map(|(m, e, d)| serde_json::json!({"mode": format!("{:?}", m), "encrypt_peak": e, "decrypt_peak": d})).collect::<Vec<_>>()));
}
