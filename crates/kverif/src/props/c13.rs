//! C13 — a failed command never creates or clobbers the output file prematurely.
use crate::cli::{self, CliIdent, In, Sandbox};
use crate::core::{ok, set_rule, CheckResult, Ctx};
use crate::ensure;
use crate::gen;
use crate::kx;
use crate::mutate::{self, MCase, PoolSel};
use crate::sio::{RSched, WSched};
use proptest::prelude::*;
use serde::{Deserialize, Serialize};
use std::os::unix::fs::MetadataExt;
use std::sync::OnceLock;

#[derive(Clone, Copy, Debug, Serialize, Deserialize, PartialEq)]
pub enum Command { Encrypt, Decrypt, PassEncrypt, PassDecrypt, KeyGenerate }
#[derive(Clone, Debug, Serialize, Deserialize, PartialEq)]
pub enum Cause {
    BadArgs(u8), MissingInput, MissingKeyring, KeyringEnvUnset, MalformedKeyring(u8), KeyringNotUtf8, UnknownRecipient, UnknownSender, NoPrivateKey, WrongPassword,
    EnvPassUnset, NoTerminal, RefusedKeyExchange(u8), BadChecksumKey, SameInOut,
    WrongHeader(u8), CorruptHeader(u8), ShortHeader(u8), WrongRecipient, CorruptFirstChunk(u8), TruncatedFirstChunk(u8), LaterChunk { j: u8, truncate: bool }, InvalidName(u8), TrailingData(u8),
    /// the password is typed at a terminal (pseudo-terminal) instead of coming from the environment; several lines are available
    TypedLaterChunk { j: u8 }, TypedWrongPassword, TypedFirstChunk,
}
#[derive(Clone, Debug, Serialize, Deserialize)]
pub struct Case { pub cmd: Command, pub cause: Cause, pub prior: bool, pub inst: u64,
    /// the output path is a symbolic link: to a file that does not exist yet (prior = false) or to the existing file (prior = true)
    #[serde(default)] pub link: bool }

pub struct Ids { pub alice: CliIdent, pub bob: CliIdent, pub carol: CliIdent }
pub fn ids() -> &'static Ids { static I: OnceLock<Ids> = OnceLock::new(); I.get_or_init(|| Ids { alice: cli::make_ident("alice", 101, "alice-pw"), bob: cli::make_ident("bob", 102, "bob pw ü"), carol: cli::make_ident("carol", 103, "x") }) }
const PASS_PW: &str = "file password";
const CHUNKS: [usize; 4] = [5, 6, 7, 3];

pub fn applicable(cmd: Command) -> Vec<Cause> {
    use Cause::*; use Command::*;
    let mut v = Vec::new();
    match cmd {
        Encrypt => { for i in 0..4 { v.push(BadArgs(i)); } v.extend([MissingInput, MissingKeyring, KeyringEnvUnset, KeyringNotUtf8, UnknownRecipient, UnknownSender, NoPrivateKey, WrongPassword, EnvPassUnset, NoTerminal, BadChecksumKey, SameInOut]); for i in 0..4 { v.push(MalformedKeyring(i)); } for i in 0..14 { v.push(RefusedKeyExchange(i)); } }
        Decrypt => { for i in 0..4 { v.push(BadArgs(i)); } v.extend([MissingInput, MissingKeyring, KeyringEnvUnset, KeyringNotUtf8, UnknownRecipient, NoPrivateKey, WrongPassword, EnvPassUnset, NoTerminal, WrongRecipient, SameInOut]); for i in 0..4 { v.push(MalformedKeyring(i)); } for i in 0..5 { v.push(WrongHeader(i)); } for i in 0..6 { v.push(CorruptHeader(i)); } for i in 0..3 { v.push(ShortHeader(i)); } for i in 0..4 { v.push(CorruptFirstChunk(i)); } for i in 0..3 { v.push(TruncatedFirstChunk(i)); } for j in 1..4 { v.push(LaterChunk { j, truncate: false }); v.push(LaterChunk { j, truncate: true }); } for i in 0..2 { v.push(TrailingData(i)); } for j in 1..4 { v.push(TypedLaterChunk { j }); } v.push(TypedFirstChunk); }
        PassEncrypt => { for i in 0..3 { v.push(BadArgs(i)); } v.extend([MissingInput, EnvPassUnset, NoTerminal, SameInOut]); }
        PassDecrypt => { for i in 0..3 { v.push(BadArgs(i)); } v.extend([MissingInput, EnvPassUnset, NoTerminal, WrongPassword, SameInOut]); for i in 0..5 { v.push(WrongHeader(i)); } for i in 0..2 { v.push(CorruptHeader(i)); } for i in 0..3 { v.push(ShortHeader(i)); } for i in 0..4 { v.push(CorruptFirstChunk(i)); } for i in 0..3 { v.push(TruncatedFirstChunk(i)); } for j in 1..4 { v.push(LaterChunk { j, truncate: false }); v.push(LaterChunk { j, truncate: true }); } for i in 0..2 { v.push(TrailingData(i)); } for j in 1..4 { v.push(TypedLaterChunk { j }); } v.push(TypedWrongPassword); v.push(TypedFirstChunk); }
        KeyGenerate => { v.extend([BadArgs(0), BadArgs(1), EnvPassUnset, NoTerminal]); for i in 0..3 { v.push(InvalidName(i)); } }
    }
    v
}

fn key_file(inst: u64, plain: &[u8], to: &CliIdent, from: &CliIdent) -> Vec<u8> {
    kx::key_encrypt_chunked(plain, &CHUNKS, &kx::Ident { sk: from.sk, pk: from.pk }, &to.pk, &gen::key32(inst, "c13-e"), &gen::key32(inst, "c13-p")).expect("encrypt")
}
static PASS_FILES: std::sync::Mutex<Vec<(u64, Vec<u8>)>> = std::sync::Mutex::new(Vec::new());
fn pass_file(inst: u64, plain: &[u8]) -> Vec<u8> {
    let slot = inst % 4; // a handful of authentic password files per run (each costs one KDF)
    if let Some((_, f)) = PASS_FILES.lock().unwrap().iter().find(|(s, _)| *s == slot) { return f.clone(); }
    let (res, sh) = kx::pass_encrypt(plain, &RSched { gives: CHUNKS.to_vec(), then: 0 }, &WSched::all(), None, PASS_PW.as_bytes(), gen::key32(slot, "c13-salt")); assert!(res.is_ok());
    let f = sh.sink.take(); PASS_FILES.lock().unwrap().push((slot, f.clone())); f
}
fn plain_for(cmd: Command, inst: u64) -> Vec<u8> { let seed = if cmd == Command::PassDecrypt { inst % 4 } else { inst }; gen::bytes_from(seed ^ 0xC13, CHUNKS.iter().sum()) }

pub fn check(c: &Case) -> CheckResult {
    use Cause::*; use Command::*;
    let id = ids(); let sb = Sandbox::new();
    let plain = plain_for(c.cmd, c.inst);
    sb.write("msg.txt", &plain);
    let low = gen::low_order_points();
    // keyring
    let mut kr = cli::keyring_text(&[(&id.alice, true), (&id.bob, true), (&id.carol, false)]);
    if let RefusedKeyExchange(i) = &c.cause { kr.push_str(&format!("\n[Key]\nName = mallory\nPublicKey = {}\n", kspec::encode_public_key(&low[*i as usize % low.len()]))); }
    if c.cause == BadChecksumKey { let mut b = id.carol.pk.to_vec(); b.extend_from_slice(&[1, 2, 3, 4]); kr.push_str(&format!("\n[Key]\nName = mallory\nPublicKey = {}\n", kspec::base64(&b))); }
    let mut kr_bytes = kr.clone().into_bytes();
    match &c.cause { MalformedKeyring(0) => kr_bytes.extend_from_slice(b"\nthis is not a keyring line\n"), MalformedKeyring(1) => kr_bytes.extend_from_slice(format!("\n[Key]\nName = alice\nPublicKey = {}\n", id.carol.epk).as_bytes()), MalformedKeyring(2) => kr_bytes.extend_from_slice(b"\n[Key]\nName = dave\nPublicKey = AAAA\n"), MalformedKeyring(_) => kr_bytes = b"# no keys here\n".to_vec(), KeyringNotUtf8 => kr_bytes.extend_from_slice(&[b'\n', b'#', 0xff, 0xfe, b'\n']), _ => {} }
    sb.write("keys.txt", &kr_bytes);
    // authentic ciphertext (decrypt side) and its damaged variants
    let authentic = match c.cmd { Decrypt => key_file(c.inst, &plain, &id.bob, &id.alice), PassDecrypt => pass_file(c.inst, &plain), _ => vec![] };
    let hdr = if c.cmd == Decrypt { 132 } else { 36 };
    let rec_start = |j: usize| hdr + (0..j).map(|i| 32 + CHUNKS[i]).sum::<usize>();
    let mut input = authentic.clone(); let mut expect_prefix: Option<usize> = None; let mut any_whole_chunk_prefix = false;
    let sel = c.inst as usize;
    match &c.cause {
        WrongHeader(0) => input = if c.cmd == Decrypt { pass_file(c.inst, &plain_for(PassDecrypt, c.inst)) } else { key_file(c.inst, &plain, &id.bob, &id.alice) },
        WrongHeader(1) => { input[3] ^= 0x01; } WrongHeader(2) => input = gen::bytes_from(c.inst, 300), WrongHeader(3) => input = vec![], WrongHeader(_) => input.truncate(3),
        CorruptHeader(i) => { let (lo, hi) = if c.cmd == Decrypt { [(4, 36), (36, 68), (68, 84), (84, 116), (116, 132), (4, 132)][*i as usize % 6] } else { (4, 36) }; let p = lo + sel % (hi - lo); input[p] ^= 1 << (sel % 8); }
        ShortHeader(i) => { let l = match i { 0 => 4, 1 => hdr - 1, _ => 4 + sel % (hdr - 4) }; input.truncate(l); }
        WrongRecipient => input = key_file(c.inst, &plain, &id.alice, &id.bob),
        CorruptFirstChunk(i) => { let s = rec_start(0); let p = match i { 0 => s + 8 + sel % 4, 1 => s + 12 + sel % 4, 2 => s + 16 + sel % CHUNKS[0], _ => s + 16 + CHUNKS[0] + sel % 16 }; input[p] ^= 1 << (sel % 8); }
        TruncatedFirstChunk(i) => { let s = rec_start(0); let l = match i { 0 => s, 1 => s + 16, _ => s + 1 + sel % (31 + CHUNKS[0]) }; input.truncate(l); }
        LaterChunk { j, truncate } => { let j = *j as usize; let s = rec_start(j); let len = 32 + CHUNKS[j];
            if *truncate { input.truncate(s + sel % len); } else { let off = 8 + sel % (len - 8); input[s + off] ^= 1 << (sel % 8); }
            expect_prefix = Some(CHUNKS[..j].iter().sum()); }
        TypedLaterChunk { j } => { let j = *j as usize; let st = rec_start(j); let len = 32 + CHUNKS[j]; let off = 16 + sel % (len - 16); input[st + off] ^= 1 << (sel % 8); expect_prefix = Some(CHUNKS[..j].iter().sum()); }
        TypedFirstChunk => { let st = rec_start(0); input[st + 16 + sel % (16 + CHUNKS[0])] ^= 1 << (sel % 8); }
        TrailingData(i) => { input.extend_from_slice(&gen::bytes_from(c.inst, if *i == 0 { 1 } else { 1 + sel % 90 })); any_whole_chunk_prefix = true; }
        _ => {}
    }
    if matches!(c.cmd, Decrypt | PassDecrypt) { sb.write("in.ktl", &input); }
    // prior state of the output path
    let out_name = if c.cause == SameInOut { if matches!(c.cmd, Decrypt | PassDecrypt) { "in.ktl" } else { "msg.txt" } } else if c.cmd == KeyGenerate { "newkeys.txt" } else { "out.bin" };
    let prior_content = if c.cause == SameInOut { sb.read(out_name) } else if c.prior { let p = if c.cmd == KeyGenerate { kr.clone().into_bytes() } else { gen::bytes_from(c.inst ^ 0xBEEF, 50 + sel % 100) }; sb.write(out_name, &p); Some(p) } else { None };
    let linked = c.link && c.cause != SameInOut;
    if linked { if c.prior { let _ = std::fs::rename(sb.path(out_name), sb.path("elsewhere.bin")); } let _ = std::os::unix::fs::symlink("elsewhere.bin", sb.path(out_name)); }
    let prior_ino = std::fs::metadata(sb.path(out_name)).ok().map(|m| m.ino());
    // argv / env
    let infile = if c.cause == MissingInput { "nofile.bin" } else if matches!(c.cmd, Decrypt | PassDecrypt) { "in.ktl" } else { "msg.txt" };
    let keyring_arg = if c.cause == MissingKeyring { "nokeys.txt" } else { "keys.txt" };
    let mut a: Vec<String> = match c.cmd {
        Encrypt => vec!["encrypt".into(), infile.into(), "-t".into(), (match &c.cause { UnknownRecipient => "nobody", RefusedKeyExchange(_) | BadChecksumKey => "mallory", _ => "bob" }).into(), "-f".into(), (match &c.cause { UnknownSender => "nobody", NoPrivateKey => "carol", _ => "alice" }).into(), "-o".into(), out_name.into()],
        Decrypt => vec!["decrypt".into(), infile.into(), "-t".into(), (match &c.cause { UnknownRecipient => "nobody", NoPrivateKey => "carol", _ => "bob" }).into(), "-o".into(), out_name.into()],
        PassEncrypt => vec!["password".into(), "encrypt".into(), infile.into(), "-o".into(), out_name.into()],
        PassDecrypt => vec!["password".into(), "decrypt".into(), infile.into(), "-o".into(), out_name.into()],
        KeyGenerate => vec!["key".into(), "generate".into(), "-o".into(), out_name.into()],
    };
    let mut env: Vec<(String, String)> = Vec::new();
    if matches!(c.cmd, Encrypt | Decrypt) && c.cause != KeyringEnvUnset { a.push("-k".into()); a.push(keyring_arg.into()); }
    let typed = matches!(c.cause, TypedLaterChunk { .. } | TypedWrongPassword | TypedFirstChunk);
    if typed && !cli::pty_available() { return ok(false, "skipped:no-pty"); }
    if c.cause != NoTerminal && !typed { a.push("--env-pass".into()); }
    let right_pw = match c.cmd { Encrypt => id.alice.password.clone(), Decrypt => if c.cause == WrongRecipient { id.bob.password.clone() } else { id.bob.password.clone() }, KeyGenerate => "new key pw".into(), _ => PASS_PW.into() };
    if c.cause != EnvPassUnset { env.push(("KESTREL_PASSWORD".into(), if c.cause == WrongPassword { format!("{}x", right_pw) } else { right_pw })); }
    if let BadArgs(i) = &c.cause { match (c.cmd, i) {
        (Encrypt, 0) | (Decrypt, 0) => { let p = a.iter().position(|x| x == "-t").unwrap(); a.drain(p..p + 2); }
        (_, 1) | (KeyGenerate, 0) => a.push("--bogus".into()),
        (Encrypt, 2) | (Decrypt, 2) | (PassEncrypt, 0) | (PassDecrypt, 0) => a.insert(2, "extra-free-arg".into()),
        (Encrypt, _) | (Decrypt, _) => { let p = a.iter().position(|x| x == "-o").unwrap(); a.truncate(p + 1); a.push("-k".into()); } // "-o" swallows "-k": option without its file
        (_, _) => a.push("-o".into()),
    } }
    let name_line = match &c.cause { InvalidName(0) => "\n".to_string(), InvalidName(1) => format!("{}\n", "n".repeat(129)), InvalidName(_) => "   \n".to_string(), _ => "newkey\n".to_string() };
    let ar: Vec<&str> = a.iter().map(|s| s.as_str()).collect();
    let mut cmd = sb.cmd(&ar); cmd.env = env;
    if c.cmd == KeyGenerate { cmd.stdin = In::Bytes(name_line.into_bytes()); }
    if typed { // the same line is available several times: a tool that asks again gets an answer again
        let pw = cmd.env.iter().find(|(k, _)| k == "KESTREL_PASSWORD").map(|(_, v)| v.clone()).unwrap_or_default(); cmd.env.retain(|(k, _)| k != "KESTREL_PASSWORD");
        cmd.pty_lines = Some(vec![if c.cause == TypedWrongPassword { format!("{}x", pw) } else { pw }; 4]); cmd.timeout_ms = 30_000; }
    let r = cmd.run();
    if std::env::var("KVERIF_DEBUG").is_ok() { eprintln!("DBG {:?} {:?} prior={} -> {:?} {}", c.cmd, c.cause, c.prior, r.code, r.stderr_s().replace('\n', " | ")); }
    ensure!(r.signal.is_none() && !r.timed_out, "command did not end normally: {}", r.describe());
    ensure!(r.code == Some(1), "a failing invocation ({:?} / {:?}) exited with {:?} instead of 1; stderr: {}", c.cmd, c.cause, r.code, r.stderr_s());
    ensure!(r.stderr_s().lines().chain(r.stdout_s().lines()).any(|l| l.trim_start().starts_with("Error:")), "exit status 1 without an 'Error:' line: {:?} {:?}", r.stderr_s(), if typed { r.stdout_s() } else { String::new() });
    let after = sb.read(out_name);
    if any_whole_chunk_prefix {
        // bytes after the final chunk: the command fails (exit 1, checked above); what is at the output path is a prefix of the
        // plaintext made of whole chunks (which one is not prescribed), or the path is as it was
        let bounds: Vec<usize> = (0..=CHUNKS.len()).map(|k| CHUNKS[..k].iter().sum()).collect();
        if after != prior_content { let a = after.clone().unwrap_or_default(); ensure!(bounds.contains(&a.len()) && a[..] == plain[..a.len()], "after a file with trailing bytes the output path holds {} bytes that are not a whole-chunk prefix of the plaintext", a.len()); }
        return ok(true, format!("{:?}/TrailingData/{}", c.cmd, if c.prior { "present" } else { "absent" }));
    }
    if linked { ensure!(std::fs::symlink_metadata(sb.path(out_name)).map(|m| m.file_type().is_symlink()).unwrap_or(false), "the output path was a symbolic link ({}); after the failing invocation ({:?} / {:?}) the link is gone or replaced", if c.prior { "to an existing file" } else { "to a file that did not exist yet" }, c.cmd, c.cause); }
    match expect_prefix {
        Some(n) => { ensure!(after.as_deref() == Some(&plain[..n]), "a later chunk failed: the output path should hold exactly the {} authenticated bytes, it holds {:?} bytes", n, after.as_ref().map(|a| a.len())); }
        None => {
            match (&prior_content, &after) {
                (None, None) => {}
                (None, Some(a)) => return Err(format!("a failing invocation ({:?} / {:?}) created the output file ({} bytes)", c.cmd, c.cause, a.len())),
                (Some(_), None) => return Err(format!("a failing invocation ({:?} / {:?}) removed the file at the output path", c.cmd, c.cause)),
                (Some(p), Some(a)) => { ensure!(p == a, "a failing invocation ({:?} / {:?}) changed the file already at the output path ({} bytes before, {} after)", c.cmd, c.cause, p.len(), a.len());
                    ensure!(std::fs::metadata(sb.path(out_name)).ok().map(|m| m.ino()) == prior_ino, "a failing invocation replaced the file at the output path"); }
            }
        }
    }
    ok(true, format!("{:?}/{}/{}", c.cmd, format!("{:?}", c.cause).split(['(', ' ', '{']).next().unwrap_or(""), if c.prior { "present" } else { "absent" }))
}

/// Library-level companion: before the handshake succeeded / the first chunk verified the sink sees no call at all
/// (a flush alone would already create the file in the CLI's lazily created output).
pub fn check_lib(c: &MCase) -> CheckResult {
    let (p, f, res, sh, _) = mutate::present(c);
    let base = &p.files[c.m.base % p.files.len()];
    let intact = mutate::governing(&p, base, &f).map(|a| a.intact_prefix(&f)).unwrap_or(0);
    if intact == 0 && !res.is_ok() { ensure!(sh.writes.get() == 0 && sh.flushes.get() == 0, "decryption failed before any chunk verified, yet the sink saw {} write and {} flush calls", sh.writes.get(), sh.flushes.get()); }
    ok(intact == 0 && !res.is_ok(), format!("{}/{}", mutate::classify(&p, &c.m), if intact == 0 { "nothing-authentic" } else { "some-authentic" }))
}

pub fn run(ctx: &Ctx) {
    *ctx.level.lock().unwrap() = "fault_enumeration";
    set_rule("C13", "complete enumeration of command in {encrypt, decrypt, password encrypt, password decrypt, key generate} x every applicable failure cause of the statement (bad arguments in several forms, missing input, missing/unset/malformed/non-UTF-8 keyring, unknown recipient/sender, missing private key, wrong password, unset password variable, no terminal, refused key exchange for each of the 14 small-order encodings, bad checksum, same input and output, wrong/corrupted/short header, wrong recipient, corrupted/truncated first chunk, corrupted/truncated later chunk j) x prior state of the -o path in {absent, present with generated content} x generated instances (contents, corruption offsets). The binary built from the working tree runs in a private directory; the path is compared before/after (existence, bytes, inode); later-chunk failures must leave exactly the first j chunks. Library companion: mutated files that fail before any chunk verifies must cause zero write/flush calls. Non-trivial = every triple (all are failing runs); distinct by enumeration index");
    ctx.assume("Linux, no controlling terminal; failure of the output device itself is not among the listed causes");
    let _ = ids();
    let mut cases = Vec::new();
    let reps = ctx.n(4, 24);
    for cmd in [Command::Encrypt, Command::Decrypt, Command::PassEncrypt, Command::PassDecrypt, Command::KeyGenerate] { for cause in applicable(cmd) { for prior in [false, true] { for k in 0..reps {
        cases.push(Case { cmd, cause: cause.clone(), prior, inst: ctx.seed.wrapping_mul(1000).wrapping_add(k * 7919 + cases.len() as u64), link: false }); }
        cases.push(Case { cmd, cause: cause.clone(), prior, inst: ctx.seed.wrapping_mul(1000).wrapping_add(31 + cases.len() as u64), link: true }); } } }
    ctx.sse_vec("cli_failure_matrix", &format!("5 commands x applicable causes x 2 prior states x {} instances, plus each once with the output path a symbolic link (dangling / to the existing file)", reps), cases, check);
    let seed = ctx.seed;
    ctx.pbt("lib_no_sink_calls_before_authentication", ctx.n(30_000, 600_000), || (super::c03::strat(PoolSel::KeySmall, seed, 3, 100), crate::gen::rsched_strategy()).prop_map(|(mut c, rs)| { c.rs = rs; c }), check_lib);
}
