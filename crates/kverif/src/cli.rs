//! CLI driver: runs the `kestrel` binary built from the working tree (crates/cli_wt) as a process with
//! explicit argv, scrubbed environment, no controlling terminal, private temp directory, timeout.
use crate::keyring::{EncodedSk, Keyring};
use kestrel_crypto::{PrivateKey, PublicKey};
use std::ffi::OsString;
use std::io::{Read, Write};
use std::os::unix::process::{CommandExt, ExitStatusExt};
use std::path::{Path, PathBuf};
use std::process::{Command, Stdio};
use std::sync::atomic::{AtomicU64, Ordering};

pub fn kestrel_bin() -> PathBuf { PathBuf::from(std::env::var("KESTREL_BIN").unwrap_or_else(|_| "/verif/target/release/kestrel".into())) }

#[derive(Clone, Debug)]
pub enum In { Null, Bytes(Vec<u8>), File(PathBuf), Closed }
#[derive(Clone, Debug, PartialEq)]
pub enum Out { Capture, File(PathBuf), DevFull, ClosedPipe, Null }
#[derive(Clone, Debug)]
pub struct Cmd { pub args: Vec<OsString>, pub env: Vec<(String, String)>, pub stdin: In, pub stdout: Out, pub cwd: PathBuf, pub timeout_ms: u64 }
#[derive(Clone, Debug)]
pub struct Run { pub code: Option<i32>, pub signal: Option<i32>, pub stdout: Vec<u8>, pub stderr: Vec<u8>, pub timed_out: bool }
impl Run {
    pub fn stderr_s(&self) -> String { String::from_utf8_lossy(&self.stderr).into_owned() }
    pub fn stdout_s(&self) -> String { String::from_utf8_lossy(&self.stdout).into_owned() }
    pub fn describe(&self) -> String { format!("exit {:?} signal {:?}{} stderr {:?}", self.code, self.signal, if self.timed_out { " TIMED OUT" } else { "" }, self.stderr_s().chars().take(300).collect::<String>()) }
}
pub fn args(a: &[&str]) -> Vec<OsString> { a.iter().map(OsString::from).collect() }

pub fn run(c: &Cmd) -> Run {
    let mut cmd = Command::new(kestrel_bin());
    cmd.args(&c.args).env_clear().current_dir(&c.cwd);
    for (k, v) in &c.env { cmd.env(k, v); }
    unsafe { cmd.pre_exec(|| { libc::setsid(); Ok(()) }); }
    match &c.stdin { In::Null => { cmd.stdin(Stdio::null()); } In::Bytes(_) => { cmd.stdin(Stdio::piped()); } In::File(p) => { cmd.stdin(std::fs::File::open(p).map(Stdio::from).unwrap_or_else(|_| Stdio::null())); } In::Closed => { cmd.stdin(Stdio::piped()); } }
    let mut closed_reader = None;
    match &c.stdout {
        Out::Capture => { cmd.stdout(Stdio::piped()); }
        Out::File(p) => { cmd.stdout(std::fs::File::create(p).map(Stdio::from).unwrap_or_else(|_| Stdio::null())); }
        Out::DevFull => { cmd.stdout(std::fs::OpenOptions::new().write(true).open("/dev/full").map(Stdio::from).unwrap_or_else(|_| Stdio::null())); }
        Out::Null => { cmd.stdout(Stdio::null()); }
        Out::ClosedPipe => { let mut fds = [0i32; 2]; unsafe { libc::pipe2(fds.as_mut_ptr(), libc::O_CLOEXEC); } closed_reader = Some(fds[0]); cmd.stdout(unsafe { <Stdio as std::os::fd::FromRawFd>::from_raw_fd(fds[1]) }); }
    }
    cmd.stderr(Stdio::piped());
    let mut child = match cmd.spawn() { Ok(c) => c, Err(e) => return Run { code: None, signal: None, stdout: vec![], stderr: format!("spawn failed: {}", e).into_bytes(), timed_out: false } };
    if let Some(fd) = closed_reader { unsafe { libc::close(fd); } }
    let stdin = child.stdin.take();
    let feeder = match (&c.stdin, stdin) { (In::Bytes(b), Some(mut si)) => { let b = b.clone(); Some(std::thread::spawn(move || { let _ = si.write_all(&b); })) } (In::Closed, Some(si)) => { drop(si); None } _ => None };
    let so = child.stdout.take(); let se = child.stderr.take();
    let t_out = so.map(|mut s| std::thread::spawn(move || { let mut v = Vec::new(); let _ = s.read_to_end(&mut v); v }));
    let t_err = se.map(|mut s| std::thread::spawn(move || { let mut v = Vec::new(); let _ = s.read_to_end(&mut v); v }));
    let start = std::time::Instant::now(); let mut timed_out = false;
    let status = loop {
        match child.try_wait() { Ok(Some(st)) => break Some(st), Ok(None) => {}, Err(_) => break None }
        if start.elapsed().as_millis() as u64 > c.timeout_ms { timed_out = true; let _ = child.kill(); break child.wait().ok(); }
        std::thread::sleep(std::time::Duration::from_micros(if start.elapsed().as_millis() < 20 { 200 } else { 2000 }));
    };
    if let Some(f) = feeder { let _ = f.join(); }
    let stdout = t_out.map(|t| t.join().unwrap_or_default()).unwrap_or_default();
    let stderr = t_err.map(|t| t.join().unwrap_or_default()).unwrap_or_default();
    Run { code: status.and_then(|s| s.code()), signal: status.and_then(|s| s.signal()), stdout, stderr, timed_out }
}

static DIR_SEQ: AtomicU64 = AtomicU64::new(0);
/// Private scratch directory, removed on drop.
pub struct Sandbox { pub dir: PathBuf }
impl Sandbox {
    pub fn new() -> Sandbox {
        let d = std::env::temp_dir().join(format!("kverif-{}-{}", std::process::id(), DIR_SEQ.fetch_add(1, Ordering::Relaxed)));
        let _ = std::fs::remove_dir_all(&d); std::fs::create_dir_all(&d).expect("temp dir"); Sandbox { dir: d }
    }
    pub fn path(&self, name: &str) -> PathBuf { self.dir.join(name) }
    pub fn write(&self, name: &str, data: &[u8]) -> PathBuf { let p = self.path(name); std::fs::write(&p, data).expect("write temp file"); p }
    pub fn read(&self, name: &str) -> Option<Vec<u8>> { std::fs::read(self.path(name)).ok() }
    pub fn cmd(&self, a: &[&str]) -> Cmd { Cmd { args: args(a), env: vec![], stdin: In::Null, stdout: Out::Capture, cwd: self.dir.clone(), timeout_ms: 60_000 } }
}
impl Drop for Sandbox { fn drop(&mut self) { let _ = std::fs::remove_dir_all(&self.dir); } }
impl Cmd {
    pub fn env(mut self, k: &str, v: &str) -> Cmd { self.env.push((k.into(), v.into())); self }
    pub fn stdin(mut self, i: In) -> Cmd { self.stdin = i; self }
    pub fn stdout(mut self, o: Out) -> Cmd { self.stdout = o; self }
    pub fn run(&self) -> Run { run(self) }
}

/// An identity usable on the command line: the private key is locked with the implementation's own
/// lock (so that a format drift is reported under C15 only), the password is known.
#[derive(Clone, Debug)]
pub struct CliIdent { pub name: String, pub sk: [u8; 32], pub pk: [u8; 32], pub epk: String, pub esk: String, pub password: String }
pub fn make_ident(name: &str, seed: u64, password: &str) -> CliIdent {
    let sk = crate::gen::key32(seed, "cli-ident"); let pk = kspec::x25519_base(&sk);
    let esk = Keyring::lock_private_key(&PrivateKey::try_from(&sk[..]).unwrap(), password.as_bytes(), crate::gen::key32(seed, "cli-salt"));
    let epk = Keyring::encode_public_key(&PublicKey::try_from(&pk[..]).unwrap());
    CliIdent { name: name.into(), sk, pk, epk: epk.as_str().into(), esk: esk.as_str().into(), password: password.into() }
}
pub fn keyring_text(entries: &[(&CliIdent, bool)]) -> String {
    let mut s = String::new();
    for (i, (id, with_sk)) in entries.iter().enumerate() {
        if i > 0 { s.push('\n'); }
        if *with_sk { s.push_str(&Keyring::serialize_key(&id.name, &crate::keyring::EncodedPk::try_from(id.epk.as_str()).unwrap(), &EncodedSk::try_from(id.esk.as_str()).unwrap())); }
        else { s.push_str(&format!("[Key]\nName = {}\nPublicKey = {}\n", id.name, id.epk)); }
    }
    s
}
pub fn exists(p: &Path) -> bool { std::fs::symlink_metadata(p).is_ok() }
