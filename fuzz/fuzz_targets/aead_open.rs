#![no_main]
//! (key, nonce, aad, ciphertext) decoded from the bytes: open never panics and agrees with the RFC 8439 reference;
//! seal agrees with the reference and open inverts it.
use kverif_fuzz::Bytes;
use libfuzzer_sys::fuzz_target;
fuzz_target!(|data: &[u8]| {
    let mut b = Bytes::new(data);
    let mut key = [0u8; 32]; key.copy_from_slice(&{ let mut k = b.take(32).to_vec(); k.resize(32, 7); k });
    let mut nonce = [0u8; 12]; nonce.copy_from_slice(&{ let mut k = b.take(12).to_vec(); k.resize(12, 9); k });
    let alen = b.u8() as usize % 48; let aad = b.take(alen).to_vec(); let rest = b.rest().to_vec();
    let got = kestrel_crypto::chapoly_decrypt_ietf(&key, &nonce, &rest, &aad).ok();
    let want = kspec::aead_open(&key, &nonce, &aad, &rest);
    assert!(got == want, "C19: open disagrees with RFC 8439 on a {}-byte input", rest.len());
    let ct = kestrel_crypto::chapoly_encrypt_ietf(&key, &nonce, &rest, &aad);
    assert!(ct == kspec::aead_seal(&key, &nonce, &aad, &rest), "C19: seal disagrees with RFC 8439");
    assert!(kestrel_crypto::chapoly_decrypt_ietf(&key, &nonce, &ct, &aad).ok().as_deref() == Some(&rest[..]), "C19: open does not invert seal");
});
