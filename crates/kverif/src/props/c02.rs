//! C02 — password-mode round trip; every other password is rejected.
use crate::core::{ok, set_rule, CheckResult, Ctx};
use crate::ensure;
use crate::gen::{self, Plain, CS};
use crate::kx;
use crate::sio::{read_sizes, Ev, RSched, WSched};
use proptest::prelude::*;
use serde::{Deserialize, Serialize};
use std::sync::atomic::{AtomicU64, Ordering};

#[derive(Clone, Debug, Serialize, Deserialize)]
pub struct Case { pub plain: Plain, pub w: Vec<u8>, pub salt: u64, pub prs: RSched, pub cws: WSched, pub crs: RSched, pub pws: WSched, pub wrong_sel: u64, pub n_wrong: usize }

static EQUIV_SAME: AtomicU64 = AtomicU64::new(0);
static EQUIV_DIFF: AtomicU64 = AtomicU64::new(0);

fn plain_strat() -> impl Strategy<Value = Plain> {
    prop_oneof![6 => gen::small_plain(300), 1 => (prop_oneof![Just(CS - 1), Just(CS), Just(CS + 1), Just(2 * CS), Just(2 * CS + 1), CS..3 * CS], any::<u64>()).prop_map(|(len, seed)| Plain { len, seed })]
}
pub fn strat(n_wrong: usize) -> impl Strategy<Value = Case> {
    plain_strat().prop_flat_map(move |plain| { let l = plain.len;
        (Just(plain), gen::password_strategy(), any::<u64>(), gen::rsched_for(l), gen::wsched_for(l + 100), gen::rsched_for(l + 100), gen::wsched_for(l), any::<u64>()) })
        .prop_map(move |(plain, w, salt, prs, cws, crs, pws, wrong_sel)| Case { plain, w, salt, prs, cws, crs, pws, wrong_sel, n_wrong })
}

pub fn check(c: &Case) -> CheckResult {
    let p = c.plain.bytes(); let salt = gen::key32(c.salt, "salt");
    let (res, esh) = kx::pass_encrypt(&p, &c.prs, &c.cws, None, &c.w, salt);
    ensure!(res.is_ok(), "pass_encrypt failed on a healthy source and sink: {:?}", res);
    let ct = esh.sink.take(); let lens = read_sizes(&esh);
    let (dres, dsh) = kx::pass_decrypt(&ct, &c.crs, &c.pws, None, &c.w);
    ensure!(dres.is_ok(), "pass_decrypt under the encryption password failed: {:?} (|P|={}, |w|={})", dres, p.len(), c.w.len());
    ensure!(*dsh.sink.borrow() == p, "password round trip changed the plaintext ({} in, {} out)", p.len(), dsh.sink.borrow().len());
    ensure!(dsh.src_off.get() == ct.len(), "ciphertext not consumed");
    let variants = gen::wrong_passwords(&c.w, c.wrong_sel);
    let mut classes = Vec::new(); let mut dist1 = false;
    let start = (c.wrong_sel >> 16) as usize;
    for i in 0..c.n_wrong.min(variants.len()) {
        let (w2, label) = &variants[(start + i) % variants.len()];
        if w2 == &c.w { continue; }
        let (r2, sh2) = kx::pass_decrypt(&ct, &RSched::full(), &WSched::all(), None, w2);
        if gen::hmac_equiv(&c.w, w2) {
            // same HMAC key => same scrypt key (RFC 2104/7914): not in the "must reject" set; counted only
            if r2.is_ok() && *sh2.sink.borrow() == p { EQUIV_SAME.fetch_add(1, Ordering::Relaxed); } else { EQUIV_DIFF.fetch_add(1, Ordering::Relaxed); }
            classes.push("equiv"); continue;
        }
        ensure!(!r2.is_ok(), "pass_decrypt ACCEPTED a different password (variant {}: |w|={}, |w'|={})", label, c.w.len(), w2.len());
        let wrote = sh2.events.borrow().iter().any(|e| matches!(e, Ev::W { offered, .. } if *offered > 0));
        ensure!(!wrote && sh2.sink.borrow().is_empty(), "plaintext was released under a wrong password (variant {})", label);
        if *label == "bitflip" { dist1 = true; }
        classes.push(label);
    }
    let special_pw = c.w.is_empty() || c.w.len() > 64 || !c.w.is_ascii();
    ok(lens.len() >= 2 || special_pw || dist1, format!("{}|pw:{}|wrong:{}", if lens.len() >= 2 { "multi" } else { "single" }, if c.w.is_empty() { "empty" } else if c.w.len() > 64 { ">64" } else if !c.w.is_ascii() { "non-ascii" } else { "ascii" }, classes.join("+")))
}

/// The same property at the command line (`kestrel password encrypt|decrypt --env-pass`), data through files or pipes.
#[derive(Clone, Debug, Serialize, Deserialize)]
pub struct CliCase { pub plain: Plain, pub pw: String, pub enc_pipe: Option<Vec<u16>>, pub dec_stdout: bool, pub wrong_sel: u64,
    /// how the ciphertext reaches `password decrypt`: 0 = regular FILE, 1 = FILE is a named pipe fed in pieces, 2 = FILE is /dev/stdin bound to a pipe, 3 = no FILE, stdin
    #[serde(default)] pub dec_input: u8 }
pub fn check_cli(c: &CliCase) -> CheckResult {
    use crate::cli::{In, Sandbox};
    let sb = Sandbox::new(); let p = c.plain.bytes(); sb.write("p.bin", &p);
    let mut a = vec!["password", "encrypt"]; if c.enc_pipe.is_none() { a.push("p.bin"); } a.extend(["-o", "c.ktl", "--env-pass"]);
    let mut cmd = sb.cmd(&a).env("KESTREL_PASSWORD", &c.pw); if let Some(sz) = &c.enc_pipe { cmd = cmd.stdin(In::Pipe(p.clone(), super::c01::pieces(sz, p.len()))); }
    let r = cmd.run(); ensure!(r.code == Some(0), "password encrypt failed: {}", r.describe());
    let ct = sb.read("c.ktl").ok_or("no ciphertext file")?;
    let mut a = vec!["password", "decrypt"]; match c.dec_input % 4 { 0 => a.push("c.ktl"), 1 => a.push("c.fifo"), 2 => a.push("/dev/stdin"), _ => {} } a.push("--env-pass"); if !c.dec_stdout { a.extend(["-o", "out.bin"]); }
    let wire = |mut cmd: crate::cli::Cmd| -> crate::cli::Cmd { match c.dec_input % 4 { 1 => cmd.fifos.push(("c.fifo".into(), ct.clone(), vec![3, 33, ct.len() / 2 + 1])), 2 => cmd.stdin = In::Pipe(ct.clone(), vec![5, ct.len() / 2 + 1]), 3 => cmd.stdin = In::File(sb.path("c.ktl")), _ => {} } cmd };
    let r = wire(sb.cmd(&a).env("KESTREL_PASSWORD", &c.pw)).run(); ensure!(r.code == Some(0), "password decrypt under the encryption password failed (ciphertext given as {}): {}", ["a regular FILE", "a named pipe as FILE", "/dev/stdin as FILE (a pipe)", "stdin"][(c.dec_input % 4) as usize], r.describe());
    let out = if c.dec_stdout { r.stdout.clone() } else { sb.read("out.bin").ok_or("no plaintext file")? };
    ensure!(out == p, "command-line password round trip changed the plaintext ({} in, {} out)", p.len(), out.len());
    // a different password: exit 1, nothing delivered
    let variants = gen::wrong_passwords(c.pw.as_bytes(), c.wrong_sel);
    let cand: Vec<&(Vec<u8>, &str)> = variants.iter().filter(|(w, _)| !gen::hmac_equiv(c.pw.as_bytes(), w) && std::str::from_utf8(w).map(|s| !s.contains('\0')).unwrap_or(false)).collect();
    let mut label = "none";
    if !cand.is_empty() { let (w2, l) = cand[(c.wrong_sel >> 20) as usize % cand.len()]; label = l;
        let _ = std::fs::remove_file(sb.path("out.bin"));
        let r = wire(sb.cmd(&a).env("KESTREL_PASSWORD", std::str::from_utf8(w2).unwrap())).run();
        ensure!(r.code == Some(1), "password decrypt under a different password (variant {}) exited {:?}", l, r.code);
        ensure!(r.stdout.is_empty() && sb.read("out.bin").map(|f| f.is_empty()).unwrap_or(true), "plaintext was delivered under a wrong password (variant {})", l); }
    ok(c.enc_pipe.is_some() || !c.pw.is_ascii() || c.pw.is_empty() || c.pw.len() > 64, format!("cli/{}/wrong:{}", if c.enc_pipe.is_some() { "pipe" } else { "file" }, label))
}

/// KESTREL_PASSWORD holding bytes that are not UTF-8: the tool either refuses them, or treats different byte strings as
/// different passwords - it must never open a file under another byte string than the one it was made with.
#[derive(Clone, Debug, Serialize, Deserialize)]
pub struct EnvBytes { pub a: Vec<u8>, pub b: Vec<u8> }
pub fn check_env_bytes(c: &EnvBytes) -> CheckResult {
    use crate::cli::Sandbox;
    if c.a == c.b || gen::hmac_equiv(&c.a, &c.b) || c.a.contains(&0) || c.b.contains(&0) { return ok(false, "skipped"); }
    let sb = Sandbox::new(); sb.write("p.bin", b"secret text");
    let mut e = sb.cmd(&["password", "encrypt", "p.bin", "-o", "c.ktl", "--env-pass"]); e.env_os.push(("KESTREL_PASSWORD".into(), c.a.clone()));
    let r = e.run(); ensure!(matches!(r.code, Some(0) | Some(1)) && r.signal.is_none(), "abnormal end: {}", r.describe());
    if r.code == Some(1) { ensure!(sb.read("c.ktl").is_none(), "a refused password still produced a file"); return ok(true, "env-bytes/refused"); }
    let mut d = sb.cmd(&["password", "decrypt", "c.ktl", "-o", "out.bin", "--env-pass"]); d.env_os.push(("KESTREL_PASSWORD".into(), c.b.clone()));
    let r2 = d.run();
    ensure!(r2.code == Some(1) && sb.read("out.bin").map(|f| f.is_empty()).unwrap_or(true), "a file made under the password bytes {} opened under the different bytes {} (exit {:?})", kspec::hex(&c.a), kspec::hex(&c.b), r2.code);
    ok(true, "env-bytes/accepted-and-distinguished")
}

pub fn run(ctx: &Ctx) {
    set_rule("C02", "(plaintext, password bytes incl. empty / non-UTF-8 / 62..67 bytes / up to 300 bytes, salt, 4 I/O schedules) through pass_encrypt -> pass_decrypt, then decryption under generated wrong passwords (1-bit flip, last byte, strict prefix, appended byte, case change, empty<->non-empty, unrelated) which must fail with zero data written; HMAC-equivalent spellings (w||00, SHA-256(w) for |w|>64) are labelled and only counted. Non-trivial = multi-chunk, or password empty / non-ASCII / >64 bytes, or wrong password at Hamming distance 1; distinct by hash of the case");
    ctx.assume("passwords that are the same HMAC-SHA256 key (RFC 2104 zero padding / pre-hash of keys > 64 bytes) derive the same scrypt key; they are outside the 'other password' quantifier");
    ctx.assume("the shared chunk loop is covered exhaustively for AAD = 65 67 6B 20 by C01 layer B");
    ctx.pbt("pass_roundtrip_wrong", ctx.n(480, 6_000), || strat(if ctx.quick() { 2 } else { 5 }), check);
    ctx.shrink_iters.store(20, std::sync::atomic::Ordering::Relaxed);
    ctx.pbt("cli_password_mode", ctx.n(48, 1_000), || (prop_oneof![1 => Just(Plain { len: 0, seed: 0 }), 4 => gen::small_plain(3000), 1 => gen::plain_strategy(200_000), 1 => (1usize..40).prop_map(|k| Plain { len: k * 4096, seed: 0 })], gen::env_password_strategy(), proptest::option::of(proptest::collection::vec(any::<u16>(), 0..6)), any::<bool>(), any::<u64>()).prop_map(|(plain, pw, enc_pipe, dec_stdout, wrong_sel)| CliCase { plain, pw, enc_pipe, dec_stdout, wrong_sel, dec_input: if wrong_sel % 2 == 0 { 0 } else { ((wrong_sel >> 3) % 4) as u8 } }), check_cli);
    ctx.sse_vec("cli_ciphertext_sources", "password decrypt with the ciphertext given as a regular FILE, a named pipe, /dev/stdin bound to a pipe, and plain stdin x {30 B, 70 kB}", (0..4u8).flat_map(|dec_input| [30usize, 70_000].map(move |len| CliCase { plain: Plain { len, seed: 5 + len as u64 }, pw: "pw".into(), enc_pipe: None, dec_stdout: dec_input % 2 == 0, wrong_sel: 7, dec_input })).collect(), check_cli);
    let nb: Vec<EnvBytes> = vec![(b"caf\xe9-2024".to_vec(), b"caf\xe8-2024".to_vec()), (vec![0xff], vec![0x80]), (vec![0xff], "\u{fffd}".as_bytes().to_vec()), (b"pw\xff".to_vec(), b"pw\xfe".to_vec()), (vec![0xc3], vec![0xc3, 0x28]), (vec![0xed, 0xa0, 0x80], vec![0xed, 0xa0, 0x81])].into_iter().map(|(a, b)| EnvBytes { a, b }).collect();
    ctx.sse_vec("cli_env_password_bytes", "pairs of different non-UTF-8 byte strings in KESTREL_PASSWORD: refused, or told apart", nb, check_env_bytes);
    ctx.pbt("cli_env_password_bytes_random", ctx.n(24, 400), || (proptest::collection::vec(1u8..=255, 1..12), proptest::collection::vec(1u8..=255, 1..12), any::<u8>()).prop_map(|(a, mut b, k)| { if k % 2 == 0 { b = a.clone(); let i = k as usize % b.len(); b[i] = if b[i] >= 0x80 { if b[i] == 0xff { 0xfe } else { b[i] + 1 } } else { b[i] | 0x80 }; } EnvBytes { a, b } }), check_env_bytes);
    ctx.put("hmac_equivalent_passwords", serde_json::json!({"behaved_like_w": EQUIV_SAME.load(Ordering::Relaxed), "behaved_differently": EQUIV_DIFF.load(Ordering::Relaxed), "note": "informational; excluded from the must-reject set"}));
}
