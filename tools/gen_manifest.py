#!/usr/bin/env python3
"""Writes /verif/MANIFEST.json from the table below (one place to edit)."""
import json, subprocess, os
ALL = ["C%02d" % i for i in range(1, 21)]
CHECKS = {
 "C01": dict(cat="exploration", ref="§5 C01", tech="property-based testing (proptest, seeded) over plaintexts/keys/randomness modes/4 I/O schedules + small-scope exhaustive enumeration of read partitions through the hooked chunk loops; oracle: round trip identity and reported sender = S's public key",
   text="Generated-input search: round trip through the real key_encrypt/key_decrypt with scripted short reads and partial writes (lengths biased to 0 and k*65536±1), plus every composition of every length 0..=3cs+1 into reads for chunk sizes 1..4 through the chunk loops. Finds counterexamples, does not prove absence.",
   note="Readers are conforming; sizes up to 300 kB quick / 4 MiB thorough; kestrel's own randomness is not pinned; chunk-size-parametric loops are assumed to behave for 65536 as for small sizes (layer A samples the real size)."),
}
NA_REASON = {}
def main():
    hooks_commits = subprocess.run(["git", "-C", "/repo", "log", "--format=%H %s"], capture_output=True, text=True).stdout.splitlines()
    hook_shas = [l.split()[0] for l in hooks_commits if "verif hooks" in l]
    checks = []
    for pid in ALL:
        if pid not in CHECKS: continue
        c = CHECKS[pid]
        checks.append({
            "property_id": pid,
            "quick_cmd": f"cd /verif && ./check {pid} quick",
            "thorough_cmd": f"cd /verif && ./check {pid} thorough",
            "evidence_file": f"/verif/evidence/{pid}.json",
            "replay_cmd_template": f"cd /verif && ./check {pid} --replay {{path}}",
            "engine": "kverif",
            "level_claimed": {"category": c["cat"], "text": c["text"], "design_ref": c["ref"]},
            "level_note": c["note"],
            "technique": c["tech"],
        })
    na = [{"property_id": p, "reason": NA_REASON.get(p, "check not built yet in this session (planned per DESIGN.md §5); nothing is claimed for it")} for p in ALL if p not in CHECKS]
    m = {
        "version": 1,
        "setup_cmd": "cd /verif && ./check setup",
        "hooks": {"guard": "verif-hooks", "enable": "cargo feature verif-hooks of kestrel-crypto (src/crypto/Cargo.toml), switched on by /verif/crates/kverif/Cargo.toml and /verif/fuzz/Cargo.toml; default off",
                  "baseline_off_cmd": "cd /repo && cargo test --workspace --no-fail-fast --offline", "source_commits": hook_shas, "add_only": True},
        "engines": [
            {"name": "kverif", "path": "/verif/crates/kverif", "serves_properties": sorted(CHECKS), "kind_free_text": "Rust binary: seeded proptest TestRunners on 16 worker threads (shrinking, replay files) + small-scope exhaustive enumerators sharing the same oracle functions; scripted Read/Write objects with an event log; counting allocator; CLI process driver"},
            {"name": "kspec", "path": "/verif/crates/kspec", "serves_properties": ["C05", "C06", "C15", "C18", "C19"], "kind_free_text": "independent executable specification (SHA-256, HMAC, HKDF, PBKDF2, scrypt, ChaCha20-Poly1305, X25519, Noise X, file/keyring formats, acceptance models) written from the RFCs; RFC vectors self-test at every start"},
        ],
        "checks": checks,
        "not_applicable": na,
        "notes": "Every command is ./check <ID> <tier>; it rebuilds from /repo's working tree (content-hash freshness guard), runs kverif with VERIF_SEED, and rewrites /verif/evidence/<ID>.json. Exit 0 held / 1 VIOLATION / 2 inconclusive (build failure, oracle self-test failure, watchdog).",
    }
    if not na: del m["not_applicable"]
    json.dump(m, open("/verif/MANIFEST.json", "w"), indent=1)
    print("MANIFEST.json:", len(checks), "checks,", len(na), "not applicable")
if __name__ == "__main__": main()
