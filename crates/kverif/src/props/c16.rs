//! C16 — a key keeps its identity through any sequence of password changes.
use crate::cli::{self, In, Sandbox};
use crate::core::{ok, set_rule, CheckResult, Ctx};
use crate::ensure;
use crate::gen;
use crate::keyring::{EncodedSk, Keyring};
use crate::kx;
use crate::sio::{RSched, WSched};
use kestrel_crypto::{PrivateKey, PublicKey};
use proptest::prelude::*;
use serde::{Deserialize, Serialize};

#[derive(Clone, Debug, Serialize, Deserialize)]
pub enum Step { Change { new_pw: u8 }, ChangeWrongOld { new_pw: u8 }, ChangeMissingNew, ExtractPub, ExtractPubWrongPw, UseKey }
#[derive(Clone, Debug, Serialize, Deserialize)]
pub struct History { pub from_generate: bool, pub key: u64, pub first_pw: u8, pub passwords: Vec<String>, pub steps: Vec<Step>, #[serde(default)] pub env_keyring: u8 }

fn contains_secret(hay: &[u8], sk: &[u8; 32]) -> Option<&'static str> {
    let find = |n: &[u8]| hay.windows(n.len()).any(|w| w == n);
    if find(sk) { return Some("raw"); }
    if find(kspec::hex(sk).as_bytes()) || find(kspec::hex(sk).to_uppercase().as_bytes()) { return Some("hex"); }
    let b64 = kspec::base64(sk); if find(b64.trim_end_matches('=').as_bytes()) { return Some("base64"); }
    // base64 at the two other alignments (key preceded by 1 or 2 bytes): compare the aligned inner part
    for pre in 1..3usize { let mut v = vec![0u8; pre]; v.extend_from_slice(sk); let e = kspec::base64(&v); let inner = &e[4..e.len() - 4]; if find(inner.as_bytes()) { return Some("base64 (shifted)"); } }
    None
}

/// A key-management command under an environment that carries an unrelated KESTREL_KEYRING (the key commands take no
/// keyring: USAGE lists the variable for encrypt / decrypt only): 1 = missing file, 2 = garbage, 3 = a keyring that does not parse, 4 = a valid one.
fn keycmd(sb: &Sandbox, env_keyring: u8, a: &[&str]) -> crate::cli::Cmd {
    let c = sb.cmd(a);
    match env_keyring % 5 {
        1 => c.env("KESTREL_KEYRING", "no-such-keyring.txt"),
        2 => { sb.write("garbage.kr", &[0xff, 0xfe, 0x00, 0x5b]); c.env("KESTREL_KEYRING", "garbage.kr") }
        3 => { sb.write("broken.kr", format!("[Key]\nName = a\nPublicKey = {0}\nPrivateKey = x\nPrivateKey = y\n", kspec::encode_public_key(&[7u8; 32])).as_bytes()); c.env("KESTREL_KEYRING", "broken.kr") }
        4 => { sb.write("other.kr", format!("[Key]\nName = somebody\nPublicKey = {}\n", kspec::encode_public_key(&kspec::x25519_base(&[7u8; 32]))).as_bytes()); c.env("KESTREL_KEYRING", "other.kr") }
        _ => c,
    }
}

pub fn check(h: &History) -> CheckResult {
    if h.passwords.is_empty() { return ok(false, "no-passwords"); }
    let pw = |i: u8| -> &str { &h.passwords[i as usize % h.passwords.len()] };
    let sb = Sandbox::new();
    let mut outputs: Vec<u8> = Vec::new();
    // start: a generated key or a given one
    let (sk, mut locked, gen_pub_line): ([u8; 32], String, Option<String>) = if h.from_generate {
        let r = keycmd(&sb, h.env_keyring, &["key", "generate", "-o", "k.txt", "--env-pass"]).env("KESTREL_PASSWORD", pw(h.first_pw)).env("KESTREL_NEW_PASSWORD", "stale value of an earlier change-pass").stdin(In::Bytes(b"me\n".to_vec())).run();
        ensure!(r.code == Some(0), "key generate failed: {}", r.describe());
        outputs.extend_from_slice(&r.stdout); outputs.extend_from_slice(&r.stderr);
        let text = String::from_utf8(sb.read("k.txt").ok_or("no key file")?).map_err(|e| e.to_string())?;
        let kr = Keyring::new(&text).map_err(|e| e.to_string())?; let k = kr.get_key("me").ok_or("generated key not found")?;
        let esk = k.private_key.as_ref().ok_or("no private key")?;
        let skv = Keyring::unlock_private_key(esk, pw(h.first_pw).as_bytes()).map_err(|_| "generated key does not unlock")?;
        (skv.as_bytes().try_into().unwrap(), esk.as_str().to_string(), Some(k.public_key.as_str().to_string()))
    } else {
        let sk = gen::key32(h.key, "c16-sk");
        let l = Keyring::lock_private_key(&PrivateKey::try_from(&sk[..]).unwrap(), pw(h.first_pw).as_bytes(), gen::key32(h.key, "c16-salt"));
        (sk, l.as_str().to_string(), None)
    };
    let pk = kspec::x25519_base(&sk);
    let want_pub = format!("PublicKey = {}", Keyring::encode_public_key(&PublicKey::try_from(PrivateKey::try_from(&sk[..]).unwrap().to_public().map_err(|_| "to_public")?.as_bytes()).unwrap()).as_str());
    let salt_of = |s: &str| -> Result<Vec<u8>, String> { Ok(kspec::base64_decode(s).ok_or("locked string is not base64")?.get(4..36).ok_or("locked string too short")?.to_vec()) };
    let mut salts = vec![salt_of(&locked)?];
    let mut cur = h.first_pw; let mut history_pw: Vec<u8> = vec![h.first_pw];
    let (mut changes, mut repeated) = (0, false);
    for st in &h.steps {
        match st {
            Step::Change { new_pw } => {
                let r = keycmd(&sb, h.env_keyring, &["key", "change-pass", &locked, "--env-pass"]).env("KESTREL_PASSWORD", pw(cur)).env("KESTREL_NEW_PASSWORD", pw(*new_pw)).run();
                outputs.extend_from_slice(&r.stdout); outputs.extend_from_slice(&r.stderr);
                ensure!(r.code == Some(0), "change-pass with the right old password failed: {}", r.describe());
                let out = r.stdout_s(); let line = out.lines().find(|l| l.starts_with("PrivateKey = ")).ok_or_else(|| format!("change-pass printed no PrivateKey line: {:?}", out))?;
                let newl = line["PrivateKey = ".len()..].trim().to_string();
                let esk = EncodedSk::try_from(newl.as_str()).map_err(|e| format!("change-pass printed a malformed key: {}", e))?;
                let back = Keyring::unlock_private_key(&esk, pw(*new_pw).as_bytes()).map_err(|_| "the new locked string does not unlock with the new password".to_string())?;
                ensure!(back.as_bytes() == sk, "after change-pass the key unlocks to a DIFFERENT private key");
                let s = salt_of(&newl)?; ensure!(!salts.contains(&s), "change-pass reused a salt (change #{})", changes + 1); salts.push(s);
                // an earlier password stops working unless it is the current one
                if let Some(&old) = history_pw.iter().rev().find(|&&o| !gen::hmac_equiv(pw(o).as_bytes(), pw(*new_pw).as_bytes())) {
                    ensure!(Keyring::unlock_private_key(&esk, pw(old).as_bytes()).is_err(), "an earlier password still unlocks the key after change-pass");
                } else { repeated = true; }
                if history_pw.contains(new_pw) { repeated = true; }
                locked = newl; cur = *new_pw; history_pw.push(*new_pw); changes += 1;
            }
            Step::ChangeWrongOld { new_pw } => {
                let wrong = format!("{}~", pw(cur));
                // one time in three the new password is the wrong old one itself ("nothing to change" must not skip the unlock)
                // ... and one time in three it is the key's current password (a rotation step run again with a stale old password)
                let newp = if *new_pw % 3 == 0 { wrong.clone() } else if *new_pw % 3 == 1 { pw(cur).to_string() } else { pw(*new_pw).to_string() };
                let r = keycmd(&sb, h.env_keyring, &["key", "change-pass", &locked, "--env-pass"]).env("KESTREL_PASSWORD", &wrong).env("KESTREL_NEW_PASSWORD", &newp).run();
                outputs.extend_from_slice(&r.stdout); outputs.extend_from_slice(&r.stderr);
                ensure!(r.code == Some(1) && !r.stdout_s().contains("PrivateKey"), "change-pass with a wrong old password: exit {:?}, stdout {:?}", r.code, r.stdout_s());
            }
            Step::ChangeMissingNew => {
                let r = keycmd(&sb, h.env_keyring, &["key", "change-pass", &locked, "--env-pass"]).env("KESTREL_PASSWORD", pw(cur)).run();
                outputs.extend_from_slice(&r.stdout); outputs.extend_from_slice(&r.stderr);
                ensure!(r.code == Some(1) && !r.stdout_s().contains("PrivateKey"), "change-pass without KESTREL_NEW_PASSWORD: exit {:?}, stdout {:?}", r.code, r.stdout_s());
            }
            Step::ExtractPub => {
                let r = keycmd(&sb, h.env_keyring, &["key", "extract-pub", &locked, "--env-pass"]).env("KESTREL_PASSWORD", pw(cur)).run();
                outputs.extend_from_slice(&r.stdout); outputs.extend_from_slice(&r.stderr);
                ensure!(r.code == Some(0), "extract-pub failed: {}", r.describe());
                ensure!(r.stdout_s().trim_end() == want_pub, "extract-pub printed {:?}, the key's public key in keyring encoding is {:?}", r.stdout_s().trim_end(), want_pub);
                if let Some(g) = &gen_pub_line { ensure!(want_pub == format!("PublicKey = {}", g), "extract-pub differs from the PublicKey line written at generation"); }
                ensure!(kspec::decode_public_key(&want_pub["PublicKey = ".len()..]) == Some(pk), "printed public key is not the X25519 public key of the private key with a valid checksum");
            }
            Step::ExtractPubWrongPw => {
                let r = keycmd(&sb, h.env_keyring, &["key", "extract-pub", &locked, "--env-pass"]).env("KESTREL_PASSWORD", &format!("{}~", pw(cur))).run();
                outputs.extend_from_slice(&r.stdout); outputs.extend_from_slice(&r.stderr);
                ensure!(r.code == Some(1) && !r.stdout_s().contains("PublicKey"), "extract-pub with a wrong password: exit {:?}, stdout {:?}", r.code, r.stdout_s());
            }
            Step::UseKey => {
                let other = kx::ident(h.key ^ 0x77, "c16-other");
                let kr = format!("[Key]\nName = me\nPublicKey = {}\nPrivateKey = {}\n\n[Key]\nName = other\nPublicKey = {}\n", &want_pub["PublicKey = ".len()..], locked, kspec::encode_public_key(&other.pk));
                sb.write("kr.txt", kr.as_bytes()); sb.write("m.txt", b"still me");
                let r = sb.cmd(&["encrypt", "m.txt", "-t", "other", "-f", "me", "-o", "m.ktl", "-k", "kr.txt", "--env-pass"]).env("KESTREL_PASSWORD", pw(cur)).run();
                outputs.extend_from_slice(&r.stdout); outputs.extend_from_slice(&r.stderr);
                ensure!(r.code == Some(0), "encrypt with the current locked string and password failed: {}", r.describe());
                let ct = sb.read("m.ktl").ok_or("no ciphertext")?;
                let (res, shd) = kx::key_decrypt(&ct, &RSched::full(), &WSched::all(), None, &other.sk, &other.pk);
                ensure!(matches!(res, kx::DecRes::Ok(Some(s)) if s == pk) && *shd.sink.borrow() == b"still me", "a file made with the key after password changes does not name the original public key: {:?}", res);
            }
        }
    }
    if let Some(form) = contains_secret(&outputs, &sk) { return Err(format!("the raw private key appears in the tool's output ({})", form)); }
    ok(changes >= 2 || repeated, format!("{}changes{}{}", changes.min(4), if repeated { "+repeat" } else { "" }, if h.from_generate { "/generated" } else { "/given" }))
}

pub fn strat() -> impl Strategy<Value = History> {
    let step = prop_oneof![5 => any::<u8>().prop_map(|new_pw| Step::Change { new_pw }), 1 => any::<u8>().prop_map(|new_pw| Step::ChangeWrongOld { new_pw }), 1 => Just(Step::ChangeMissingNew), 2 => Just(Step::ExtractPub), 1 => Just(Step::ExtractPubWrongPw), 1 => Just(Step::UseKey)];
    (prop::bool::weighted(0.3), any::<u64>(), any::<u8>(), proptest::collection::vec(gen::env_password_strategy(), 2..5), proptest::collection::vec(step, 1..7))
        .prop_map(|(from_generate, key, first_pw, mut passwords, steps)| { passwords.dedup();
            // near-duplicates in the same set: P, P+CR, P+blank (an unlock that "forgives" trailing white space would confuse them)
            if key % 3 == 0 { let p = passwords[0].clone(); passwords.push(format!("{}\r", p)); } if key % 5 == 0 { let p = passwords[0].clone(); passwords.push(format!("{} ", p)); }
            History { from_generate, key, first_pw, passwords, steps, env_keyring: if key % 2 == 0 { (key >> 8) as u8 % 5 } else { 0 } } })
}

pub fn run(ctx: &Ctx) {
    set_rule("C16", "histories over a generated password set (empty, ASCII, Unicode, 62..200 bytes): start from `key generate` or a given key locked by the working tree's own lock, then 1..6 steps of change-pass (right old password), change-pass with a wrong old password / without KESTREL_NEW_PASSWORD (must fail and print no key), extract-pub (right / wrong password), and encrypt with the current string in a keyring. Model (sk, current password, salts seen): after each change the printed string unlocks with the new password to the same sk, the salt is new, an earlier non-equivalent password fails; extract-pub prints the keyring encoding of the X25519 public key of sk, equal to the line written at generation; no output contains sk raw, hex or base64 (any alignment). Non-trivial = >= 2 password changes or a repeated password; distinct by hash of the history");
    ctx.assume("Linux, no terminal; passwords via KESTREL_PASSWORD / KESTREL_NEW_PASSWORD (UTF-8 without NUL)");
    ctx.shrink_iters.store(30, std::sync::atomic::Ordering::Relaxed);
    ctx.sse_vec("near_duplicate_passwords", "P+CR -> P, P -> P+CR, P+blank -> P: the earlier spelling must stop working", vec![
        History { from_generate: false, key: 1, first_pw: 1, passwords: vec!["s3cret".into(), "s3cret\r".into()], steps: vec![Step::Change { new_pw: 0 }, Step::ExtractPub], env_keyring: 0 },
        History { from_generate: false, key: 2, first_pw: 0, passwords: vec!["s3cret".into(), "s3cret\r".into()], steps: vec![Step::Change { new_pw: 1 }, Step::Change { new_pw: 0 }], env_keyring: 3 },
        History { from_generate: true, key: 3, first_pw: 1, passwords: vec!["pw".into(), "pw ".into()], steps: vec![Step::Change { new_pw: 0 }, Step::ExtractPub], env_keyring: 1 },
        History { from_generate: true, key: 4, first_pw: 0, passwords: vec!["pw".into(), "pw2".into()], steps: vec![Step::ExtractPub, Step::Change { new_pw: 1 }, Step::ExtractPub], env_keyring: 2 },
        History { from_generate: false, key: 5, first_pw: 0, passwords: vec!["pw".into(), "pw2".into()], steps: vec![Step::ExtractPub, Step::Change { new_pw: 1 }, Step::ExtractPub, Step::UseKey], env_keyring: 4 }], check);
    ctx.pbt("change_pass_histories", ctx.n(160, 2_500), strat, check);
}
