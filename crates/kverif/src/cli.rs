//! CLI driver (filled in with the CLI-level properties).
