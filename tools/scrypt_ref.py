#!/usr/bin/env python3
"""OpenSSL reference for C18: reads 'pwhex salthex n r p dklen' lines ('-' = empty), prints hex per line."""
import sys, hashlib
for line in sys.stdin:
    f = line.split()
    if len(f) != 6: continue
    pw = b"" if f[0] == "-" else bytes.fromhex(f[0]); sa = b"" if f[1] == "-" else bytes.fromhex(f[1])
    n, r, p, dk = int(f[2]), int(f[3]), int(f[4]), int(f[5])
    try: print(hashlib.scrypt(pw, salt=sa, n=n, r=r, p=p, dklen=dk, maxmem=256 * 1024 * 1024).hex())
    except Exception as e: print("ERR", type(e).__name__)
