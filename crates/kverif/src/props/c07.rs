//! C07 — fresh randomness everywhere: no (key, nonce) pair is ever reused.
use crate::cli::{In, Sandbox};
use crate::core::{ok, set_rule, CheckResult, Ctx};
use crate::ensure;
use crate::gen;
use crate::keyring::{EncodedSk, Keyring};
use crate::kx;
use crate::sio::{RSched, WSched};
use kestrel_crypto as kc;
use proptest::prelude::*;
use serde::{Deserialize, Serialize};
use std::collections::HashSet;
use std::sync::atomic::{AtomicU64, Ordering};

#[derive(Clone, Debug, Serialize, Deserialize)]
pub enum LOp { Enc { input: u8, e: Option<u8>, p: Option<u8> }, Generate, /// encryption whose k-th flush / write is interrupted once (EINTR)
    EncInterrupted { input: u8, side_flush: bool, k: u8 } }
#[derive(Clone, Debug, Serialize, Deserialize)]
pub struct LHistory { pub ops: Vec<LOp>, pub seed: u64 }

static ONES: AtomicU64 = AtomicU64::new(0);
static BITS: AtomicU64 = AtomicU64::new(0);
fn monobit(b: &[u8]) { ONES.fetch_add(b.iter().map(|x| x.count_ones() as u64).sum(), Ordering::Relaxed); BITS.fetch_add(8 * b.len() as u64, Ordering::Relaxed); }

/// Recover payload key and file key with the implementation's own public API.
fn recover(f: &[u8], r: &kx::Ident) -> Result<([u8; 32], [u8; 32]), String> {
    let m = kc::noise_decrypt(&kx::sk(&r.sk), &kx::pk(&r.pk), &f[..4], &f[4..132]).map_err(|e| format!("noise_decrypt of a fresh file failed: {}", e))?;
    let payload: [u8; 32] = m.payload_key.as_bytes().try_into().unwrap();
    let fk: [u8; 32] = kc::hkdf_sha256(&[], &payload, &m.handshake_hash, 32).try_into().unwrap();
    Ok((payload, fk))
}
/// Record i opens under counter i and under no other counter j < n: n sealed messages used n different nonces under the one key.
fn nonce_positions(f: &[u8], hdr: usize, fk: &[u8; 32], aad_prefix: &[u8]) -> Result<usize, String> {
    let recs = kspec::parse_records(&f[hdr..]).ok_or("file does not parse into records")?;
    for (i, r) in recs.iter().enumerate() {
        let mut aad = aad_prefix.to_vec(); aad.extend_from_slice(&r.flag.to_be_bytes()); aad.extend_from_slice(&r.len_field.to_be_bytes());
        for j in 0..recs.len() as u64 {
            let opens = kc::verif_chapoly_decrypt_noise(fk, j, &aad, &r.body).is_ok();
            if j == i as u64 { ensure!(opens, "chunk {} was not sealed under nonce {}", i, i); } else { ensure!(!opens, "chunk {} also opens under nonce {}: a (key, nonce) pair was used for two messages", i, j); }
        }
    }
    Ok(recs.len())
}

pub fn check_lib(h: &LHistory) -> CheckResult {
    let inputs: Vec<(kx::Ident, kx::Ident, Vec<u8>, Vec<usize>)> = (0..3u64).map(|i| (kx::ident(h.seed ^ i, "S"), kx::ident(h.seed ^ i, "R"), gen::bytes_from(h.seed ^ i, [0usize, 20, 45][i as usize]), [vec![], vec![20], vec![10, 15, 20]][i as usize].clone())).collect();
    let mut supplied: HashSet<[u8; 32]> = HashSet::new();
    for (s, r, _, _) in &inputs { supplied.insert(s.sk); supplied.insert(s.pk); supplied.insert(r.sk); supplied.insert(r.pk); }
    for op in &h.ops { if let LOp::Enc { e, p, .. } = op { if let Some(e) = e { let k = gen::key32(*e as u64 % 3, "fixed-e"); supplied.insert(k); supplied.insert(kspec::x25519_base(&k)); } if let Some(p) = p { supplied.insert(gen::key32(*p as u64 % 3, "fixed-p")); } } }
    let mut drawn: HashSet<[u8; 32]> = HashSet::new();
    let mut fresh = |v: [u8; 32], what: &str, idx: usize| -> Result<(), String> {
        if v == [0u8; 32] { return Err(format!("operation #{}: {} is all-zero", idx, what)); }
        if supplied.contains(&v) { return Err(format!("operation #{}: {} equals a value that was supplied as input", idx, what)); }
        if !drawn.insert(v) { return Err(format!("operation #{}: {} repeats a value drawn earlier in the history", idx, what)); }
        // a Curve25519 u-coordinate is < 2^255: its top byte is not uniform and is left out of the bias count
        // bits a conforming implementation may fix are left out of the count: the top bit of a public key (always 0), and the
        // first and last byte of an X25519 private key (RFC 7748 clamps them; an implementation may store keys clamped)
        monobit(if what.contains("public key") { &v[..31] } else if what.contains("private key") && v.len() == 32 { &v[1..31] } else { &v[..] }); Ok(())
    };
    let mut seen_ops: HashSet<String> = HashSet::new(); let mut repeated = false; let mut multi = 0usize;
    for (idx, op) in h.ops.iter().enumerate() {
        if !seen_ops.insert(format!("{:?}", op)) { repeated = true; }
        match op {
            LOp::Generate => { let k = kc::PrivateKey::generate(); fresh(k.as_bytes().try_into().map_err(|_| "generated key is not 32 bytes")?, "generated private key", idx)?; }
            LOp::EncInterrupted { input, side_flush, k } => {
                let (s, r, plain, lens) = &inputs[*input as usize % 3];
                let fault = crate::sio::Fault { side: if *side_flush { crate::sio::Side::Flush } else { crate::sio::Side::Write }, k: 1 + *k as usize % 8, kind: crate::sio::FKind::Interrupted };
                let (res, sh) = kx::key_encrypt(plain, &RSched { gives: lens.clone(), then: 0 }, &WSched::all(), Some(fault), &s.sk, &s.pk, &r.pk, None, None);
                if res.is_ok() { // completed in spite of the interruption: the file must be as good as any other
                    let f = sh.sink.take(); let (payload, fk) = recover(&f, r)?; fresh(f[4..36].try_into().unwrap(), "ephemeral public key", idx)?; fresh(payload, "payload key", idx)?; fresh(fk, "file key", idx)?;
                    let n = nonce_positions(&f, 132, &fk, &[])?; ensure!(n == lens.len().max(1), "after an interrupted {} the file has {} records for {} chunks", if *side_flush { "flush" } else { "write" }, n, lens.len().max(1)); }
            }
            LOp::Enc { input, e, p } => {
                let (s, r, plain, lens) = &inputs[*input as usize % 3];
                let ek = e.map(|e| gen::key32(e as u64 % 3, "fixed-e")); let pk = p.map(|p| gen::key32(p as u64 % 3, "fixed-p"));
                let (res, sh) = kx::key_encrypt(plain, &RSched { gives: lens.clone(), then: 0 }, &WSched::all(), None, &s.sk, &s.pk, &r.pk, ek.as_ref(), pk.as_ref());
                ensure!(res.is_ok(), "key_encrypt failed: {:?}", res);
                let f = sh.sink.take();
                let (payload, fk) = recover(&f, r)?;
                if e.is_none() { fresh(f[4..36].try_into().unwrap(), "ephemeral public key", idx)?; } else { ensure!(f[4..36] == kspec::x25519_base(&ek.unwrap()), "supplied ephemeral key was not used"); }
                if p.is_none() { fresh(payload, "payload key", idx)?; } else { ensure!(payload == pk.unwrap(), "supplied payload key was not used"); }
                if e.is_none() || p.is_none() { fresh(fk, "file key", idx)?; }
                multi += nonce_positions(&f, 132, &fk, &[])?.saturating_sub(1);
            }
        }
    }
    ok(repeated, format!("{}ops{}{}", match h.ops.len() { 0..=9 => "<10", 10..=49 => "<50", _ => ">=50" }, if repeated { "+repeats" } else { "" }, if multi > 0 { "+multi-chunk" } else { "" }))
}

#[derive(Clone, Debug, Serialize, Deserialize)]
pub enum COp { Enc, PassEnc, KeyGen, ChangePass, ChangePassSame, KeyGenAppend, /// `key change-pass` given 2 or 3 locked keys at once: whatever locked keys it prints carry salts of their own
    ChangePassMany(u8) }
#[derive(Clone, Debug, Serialize, Deserialize)]
pub struct CHistory { pub ops: Vec<COp> }
pub fn check_cli(h: &CHistory) -> CheckResult {
    let id = super::c13::ids(); let sb = Sandbox::new();
    sb.write("keys.txt", crate::cli::keyring_text(&[(&id.alice, true), (&id.bob, true)]).as_bytes()); sb.write("m.txt", b"identical input every time");
    let mut drawn: HashSet<Vec<u8>> = HashSet::new();
    let mut fresh = |v: &[u8], what: &str, idx: usize| -> Result<(), String> { if v.iter().all(|&b| b == 0) { return Err(format!("run #{}: {} is all-zero", idx, what)); } if !drawn.insert(v.to_vec()) { return Err(format!("run #{}: {} repeats a value from an earlier identical invocation", idx, what)); } monobit(if what.contains("public key") { &v[..31] } else { v }); Ok(()) };
    let bob = kx::Ident { sk: id.bob.sk, pk: id.bob.pk };
    for (idx, op) in h.ops.iter().enumerate() {
        match op {
            COp::Enc => { let r = sb.cmd(&["encrypt", "m.txt", "-t", "bob", "-f", "alice", "-o", "c.ktl", "-k", "keys.txt", "--env-pass"]).env("KESTREL_PASSWORD", &id.alice.password).run(); ensure!(r.code == Some(0), "encrypt failed: {}", r.describe());
                let f = sb.read("c.ktl").ok_or("no output")?; let (payload, fk) = recover(&f, &bob)?; fresh(&f[4..36], "ephemeral public key", idx)?; fresh(&payload, "payload key", idx)?; fresh(&fk, "file key", idx)?; nonce_positions(&f, 132, &fk, &[])?; }
            COp::PassEnc => { let r = sb.cmd(&["password", "encrypt", "m.txt", "-o", "p.ktl", "--env-pass"]).env("KESTREL_PASSWORD", "same password").run(); ensure!(r.code == Some(0), "password encrypt failed: {}", r.describe());
                let f = sb.read("p.ktl").ok_or("no output")?; fresh(&f[4..36], "password-file salt", idx)?; }
            COp::KeyGen => { let _ = std::fs::remove_file(sb.path("g.txt")); let r = sb.cmd(&["key", "generate", "-o", "g.txt", "--env-pass"]).env("KESTREL_PASSWORD", "pw").stdin(In::Bytes(b"k\n".to_vec())).run(); ensure!(r.code == Some(0), "key generate failed: {}", r.describe());
                let t = String::from_utf8(sb.read("g.txt").ok_or("no key file")?).map_err(|e| e.to_string())?; let kr = Keyring::new(&t).map_err(|e| e.to_string())?; let k = kr.get_key("k").ok_or("key missing")?;
                let esk = k.private_key.as_ref().ok_or("no private key")?; let blob = kspec::base64_decode(esk.as_str()).ok_or("bad base64")?; fresh(&blob[4..36], "locked-key salt", idx)?;
                let sk = Keyring::unlock_private_key(esk, b"pw").map_err(|_| "generated key does not unlock")?; fresh(sk.as_bytes(), "generated private key", idx)?; }
            COp::KeyGenAppend => { // another key into the same file, same password: every entry has its own salt and private key
                let name = format!("k{}", idx); let r = sb.cmd(&["key", "generate", "-o", "many.txt", "--env-pass"]).env("KESTREL_PASSWORD", "pw").stdin(In::Bytes(format!("{}\n", name).into_bytes())).run(); ensure!(r.code == Some(0), "key generate failed: {}", r.describe());
                let t = String::from_utf8(sb.read("many.txt").ok_or("no key file")?).map_err(|e| e.to_string())?; let kr = Keyring::new(&t).map_err(|e| e.to_string())?; let k = kr.get_key(&name).ok_or("key missing")?;
                let esk = k.private_key.as_ref().ok_or("no private key")?; let blob = kspec::base64_decode(esk.as_str()).ok_or("bad base64")?; fresh(&blob[4..36], "locked-key salt (key appended to an existing file)", idx)?;
                let sk = Keyring::unlock_private_key(esk, b"pw").map_err(|_| "generated key does not unlock")?; fresh(sk.as_bytes(), "generated private key", idx)?; }
            COp::ChangePassMany(k) => { static SAME_PW: std::sync::OnceLock<[crate::cli::CliIdent; 2]> = std::sync::OnceLock::new();
                let more = SAME_PW.get_or_init(|| [crate::cli::make_ident("m1", 201, &id.carol.password), crate::cli::make_ident("m2", 202, &id.carol.password)]);
                let keys = [&id.carol.esk, &more[0].esk, &more[1].esk]; let mut a = vec!["key", "change-pass"]; for e in keys.iter().take(2 + (*k as usize % 2)) { a.push(e.as_str()); } a.push("--env-pass");
                // all of them are locked under the same password
                let r = sb.cmd(&a).env("KESTREL_PASSWORD", &id.carol.password).env("KESTREL_NEW_PASSWORD", "new").run(); ensure!(r.signal.is_none() && !r.timed_out, "change-pass with several keys ended abnormally: {}", r.describe());
                for tok in r.stdout_s().split(|c: char| c.is_whitespace() || c == '=').filter(|t| t.len() == 112) { if let Some(blob) = kspec::base64_decode(tok) { if blob.len() == 84 { fresh(&blob[4..36], "salt of a locked key printed by change-pass given several keys", idx)?; } } } }
            COp::ChangePassSame => { let r = sb.cmd(&["key", "change-pass", &id.carol.esk, "--env-pass"]).env("KESTREL_PASSWORD", &id.carol.password).env("KESTREL_NEW_PASSWORD", &id.carol.password).run(); ensure!(r.code == Some(0), "change-pass failed: {}", r.describe());
                let out = r.stdout_s(); let l = out.lines().find(|l| l.starts_with("PrivateKey = ")).ok_or("no key printed")?; let blob = kspec::base64_decode(l["PrivateKey = ".len()..].trim()).ok_or("bad base64")?;
                ensure!(blob.len() == 84 && blob[4..36] != kspec::base64_decode(&id.carol.esk).unwrap()[4..36], "change-pass to the same password kept the old salt"); fresh(&blob[4..36], "change-pass salt", idx)?; }
            COp::ChangePass => { let r = sb.cmd(&["key", "change-pass", &id.carol.esk, "--env-pass"]).env("KESTREL_PASSWORD", &id.carol.password).env("KESTREL_NEW_PASSWORD", "new").run(); ensure!(r.code == Some(0), "change-pass failed: {}", r.describe());
                let out = r.stdout_s(); let l = out.lines().find(|l| l.starts_with("PrivateKey = ")).ok_or("no key printed")?; let esk = EncodedSk::try_from(l["PrivateKey = ".len()..].trim()).map_err(|e| e.to_string())?;
                let blob = kspec::base64_decode(esk.as_str()).ok_or("bad base64")?; fresh(&blob[4..36], "change-pass salt", idx)?; ensure!(blob[4..36] != kspec::base64_decode(&id.carol.esk).unwrap()[4..36], "change-pass kept the old salt"); }
        }
    }
    ok(h.ops.len() >= 2, format!("cli/{}ops", h.ops.len()))
}

/// Record i of a long stream (one-byte chunks through the hook) opens under nonce i and, for i >= 256 / 65536, NOT under
/// the nonce a counter that lost its high bytes would have produced.
#[derive(Clone, Debug, Serialize, Deserialize)]
pub struct LongNonce { pub n: usize }
pub fn check_long_nonce(c: &LongNonce) -> CheckResult {
    let key = gen::key32(c.n as u64, "c07-long"); let p = gen::bytes_from(c.n as u64, c.n);
    let (res, sh) = kx::enc_chunks(&p, &RSched::full(), &WSched::all(), None, &key, &[], 1); ensure!(res.is_ok(), "encrypt_chunks failed");
    let f = sh.sink.take(); ensure!(f.len() == c.n * 33, "unexpected stream size");
    for i in 0..c.n { let rec = &f[i * 33..(i + 1) * 33]; let mut aad = rec[8..16].to_vec(); aad.truncate(8);
        ensure!(kc::verif_chapoly_decrypt_noise(&key, i as u64, &aad, &rec[16..]).is_ok(), "record {} of a {}-record stream was not sealed under nonce {}", i, c.n, i);
        for wrap in [256u64, 65536] { if i as u64 >= wrap { ensure!(kc::verif_chapoly_decrypt_noise(&key, i as u64 % wrap, &aad, &rec[16..]).is_err(), "record {} also opens under nonce {}: the nonce repeats after {} chunks", i, i as u64 % wrap, wrap); } } }
    ok(c.n > 256, format!("long-nonce/{}", if c.n > 65536 { ">65536" } else { "<=65536" }))
}

pub fn run(ctx: &Ctx) {
    set_rule("C07", "histories of 2..200 library operations over 3 fixed inputs - key_encrypt with ephemeral and/or payload key supplied or left to the implementation, PrivateKey::generate - with a high probability of repeating an earlier operation with identical inputs; shorter CLI histories of identical `encrypt`, `password encrypt`, `key generate`, `key change-pass` runs. Invariant over the history: the values the implementation drew itself (ephemeral public keys, payload keys and file keys recovered with the implementation's own noise_decrypt + hkdf_sha256, generated private keys recovered with its unlock, salts) are pairwise distinct, not all-zero, and equal to no supplied value; if only one of ephemeral/payload key is supplied the other is still fresh; within each file record i opens under nonce i and under no other nonce j < n; a pooled monobit count over all drawn values lies within 6 sigma of 1/2. Non-trivial = history with >= 2 operations with identical inputs; distinct by hash of the history");
    ctx.assume("testing shows absence of repetition and of gross bias, not unpredictability of the operating system's generator");
    ctx.sse_vec("nonce_per_record_long_streams", "streams of 300 and 66000 one-byte chunks: record i under nonce i only", vec![LongNonce { n: 300 }, LongNonce { n: 66_000 }], check_long_nonce);
    ctx.pbt("library_histories", ctx.n(2_000, 60_000), || (proptest::collection::vec(prop_oneof![6 => (0u8..3, proptest::option::of(0u8..3), proptest::option::of(0u8..3)).prop_map(|(input, e, p)| LOp::Enc { input, e, p }), 1 => Just(LOp::Generate), 1 => (0u8..3, any::<bool>(), any::<u8>()).prop_map(|(input, side_flush, k)| LOp::EncInterrupted { input, side_flush, k })], 2..200), any::<u64>()).prop_map(|(ops, seed)| LHistory { ops, seed }), check_lib);
    ctx.shrink_iters.store(20, std::sync::atomic::Ordering::Relaxed);
    ctx.pbt("cli_histories", ctx.n(32, 600), || proptest::collection::vec(prop_oneof![3 => Just(COp::Enc), 2 => Just(COp::PassEnc), 2 => Just(COp::KeyGen), 2 => Just(COp::ChangePass), 1 => Just(COp::ChangePassSame), 2 => Just(COp::KeyGenAppend), 1 => any::<u8>().prop_map(COp::ChangePassMany)], 2..9).prop_map(|ops| CHistory { ops }), check_cli);
    let (ones, bits) = (ONES.load(Ordering::Relaxed) as f64, BITS.load(Ordering::Relaxed) as f64);
    if bits > 0.0 && ctx.replay.is_none() {
        let z = (ones - bits / 2.0) / (bits / 4.0).sqrt();
        ctx.put("monobit", serde_json::json!({"bits": bits, "ones": ones, "z": (z * 100.0).round() / 100.0, "bound": 6.0}));
        if z.abs() > 6.0 { ctx.sse("monobit_bias", "pooled monobit count over every value the implementation drew", 1, |i| i, |_| Err(format!("pooled monobit count of {} drawn bits deviates by {:.1} sigma from 1/2: the 'random' values are grossly biased", bits, z))); }
    }
}
