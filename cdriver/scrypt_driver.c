/* C ABI driver for the exported scrypt: includes the repository's header, links the static library
 * built from the working tree. Reads "pwhex salthex n r p dklen" lines (use '-' for empty), calls
 * scrypt() with exactly-sized heap buffers (ASan redzones) framed by guard bytes, prints the result. */
#include "kestrel-crypto.h"
#include <stdio.h>
#include <stdlib.h>
#include <string.h>

static size_t unhex(const char *s, unsigned char *out) {
    if (s[0] == '-') return 0;
    size_t n = strlen(s) / 2;
    for (size_t i = 0; i < n; i++) { unsigned v; sscanf(s + 2 * i, "%2x", &v); out[i] = (unsigned char)v; }
    return n;
}
int main(void) {
    static char pwh[8192], sah[8192];
    unsigned n, r, p; size_t dk;
    while (scanf("%8191s %8191s %u %u %u %zu", pwh, sah, &n, &r, &p, &dk) == 6) {
        size_t pl = strlen(pwh) / 2, sl = strlen(sah) / 2;
        unsigned char *pw = malloc(pl ? pl : 1), *sa = malloc(sl ? sl : 1);
        pl = unhex(pwh, pw); sl = unhex(sah, sa);
        unsigned char *pw2 = malloc(pl ? pl : 1), *sa2 = malloc(sl ? sl : 1);
        memcpy(pw2, pw, pl); memcpy(sa2, sa, sl);
        /* exact-size output buffer (heap redzones under ASan) and a framed one with guard bytes */
        unsigned char *exact = malloc(dk);
        unsigned char *framed = malloc(dk + 128);
        memset(framed, 0xA5, dk + 128);
        scrypt(pw, pl, sa, sl, n, r, p, exact, dk);
        scrypt(pw, pl, sa, sl, n, r, p, framed + 64, dk);
        int guard_ok = 1;
        for (size_t i = 0; i < 64; i++) if (framed[i] != 0xA5 || framed[64 + dk + i] != 0xA5) guard_ok = 0;
        int in_ok = memcmp(pw, pw2, pl) == 0 && memcmp(sa, sa2, sl) == 0;
        int same = memcmp(exact, framed + 64, dk) == 0;
        for (size_t i = 0; i < dk; i++) printf("%02x", exact[i]);
        printf(" %s %s %s\n", guard_ok ? "GUARD_OK" : "GUARD_BROKEN", in_ok ? "INPUT_OK" : "INPUT_MODIFIED", same ? "SAME" : "DIFFERENT");
        free(pw); free(sa); free(pw2); free(sa2); free(exact); free(framed);
    }
    return 0;
}
