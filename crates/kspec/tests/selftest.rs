#[test]
fn selftest() { assert!(kspec::selftest().unwrap() > 20); }
