#![no_main]
//! Text -> Keyring::new. C09/C17: never panics; an accepted keyring answers lookups consistently (oracle in src/lib.rs).
use libfuzzer_sys::fuzz_target;
fuzz_target!(|data: &[u8]| { kverif_fuzz::fuzz_keyring_parse(data); });
