#![no_main]
//! Raw bytes -> the hooked chunk loop under one fixed key. C09: never panics. C03: Ok(out) => every record equals,
//! outside its counter field, a record the real encryptor produced for that position under this key, the last one
//! carries flag 1 and ends the input, and out is the concatenation of their plaintexts.
use kverif_fuzz::{gen, kx, on, sio::{RSched, WSched}};
use libfuzzer_sys::fuzz_target;
use std::sync::OnceLock;

struct Table { key: [u8; 32], streams: Vec<(Vec<kspec::Record>, Vec<Vec<u8>>)> }
fn table() -> &'static Table {
    static T: OnceLock<Table> = OnceLock::new();
    T.get_or_init(|| {
        let key = gen::key32(77, "fuzz-chunks-key");
        let shapes: [&[usize]; 6] = [&[], &[5], &[3, 4], &[1, 1, 1], &[10, 20, 30, 5], &[65536, 7]];
        let streams = shapes.iter().enumerate().map(|(i, lens)| {
            let plain = gen::bytes_from(i as u64, lens.iter().sum());
            let f = kx::enc_chunks_chunked(&plain, lens, &key, &[], 65536).unwrap();
            let recs = kspec::parse_records(&f).unwrap();
            let mut pts = Vec::new(); let mut off = 0; for r in &recs { pts.push(plain[off..off + r.len_field as usize].to_vec()); off += r.len_field as usize; }
            (recs, pts)
        }).collect();
        Table { key, streams }
    })
}
fuzz_target!(|data: &[u8]| {
    let t = table();
    let (res, sh) = kx::dec_chunks(data, &RSched::full(), &WSched::all(), None, &t.key, &[], 65536);
    if res.is_ok() && on("C03") {
        let out = sh.sink.borrow();
        let recs = kspec::parse_records(data).expect("C03: accepted input does not parse into records");
        let mut want = Vec::new();
        for (i, r) in recs.iter().enumerate() {
            let m = t.streams.iter().find(|(rs, _)| rs.get(i).map(|a| a.flag == r.flag && a.len_field == r.len_field && a.body == r.body).unwrap_or(false));
            let (rs, pts) = m.expect("C03: accepted a record that the encryptor never produced for this position under this key");
            let _ = rs; want.extend_from_slice(&pts[i]);
        }
        assert!(recs.last().map(|r| r.flag == 1).unwrap_or(false), "C03: accepted input whose last record is not marked final");
        assert!(*out == want, "C03: accepted but output is not the concatenation of the authentic plaintexts");
    }
});
