//! C04 — only authenticated plaintext is ever released: in order, in whole chunks.
use crate::core::{ok, set_rule, CheckResult, Ctx};
use crate::gen;
use crate::mutate::{self, MCase, Mutant, PoolSel};
use crate::sio::{Fault, RSched, WSched};
use proptest::prelude::*;

pub fn check(c: &MCase) -> CheckResult {
    let (p, f, res, sh, shift) = mutate::present(c);
    let base = &p.files[c.m.base % p.files.len()];
    let (jstar, err_after_release) = mutate::judge_c04(&p, base, &f, &res, &sh, c.fault, shift)?;
    let nt = err_after_release || (!res.is_ok() && jstar >= 1);
    let class = format!("{}{}{}", mutate::classify(&p, &c.m), if c.fault.is_some() && sh.fired.get().is_some() { "+fault" } else { "" }, if err_after_release { "/partial-release" } else if res.is_ok() { "/ok" } else { "/rejected" });
    ok(nt, class)
}

fn scheds() -> impl Strategy<Value = (RSched, WSched)> {
    (prop_oneof![3 => Just(RSched::dribble(1)), 1 => (2usize..7).prop_map(RSched::dribble), 1 => gen::rsched_strategy()], prop_oneof![2 => Just(WSched::all()), 1 => Just(WSched::dribble(1)), 1 => gen::wsched_strategy()])
}
pub fn strat(sel: PoolSel, seed: u64, max_ops: usize, fault_pct: u32, full_pct: u32, coarse: bool) -> impl Strategy<Value = MCase> {
    let p = mutate::pool(sel, seed);
    let sch = if coarse { (gen::rsched_coarse(), gen::wsched_coarse()).boxed() } else { scheds().boxed() };
    (mutate::mutant_strategy(&p, max_ops), sch, 0u32..100, gen::fault_strategy(if coarse { 40 } else { 400 }), 0u32..100)
        .prop_map(move |(m, (rs, ws), x, fault, y)| MCase { sel, pool_seed: seed, m, full: y < full_pct, rs, ws, fault: if x < fault_pct { Some(fault) } else { None } })
}

pub fn run(ctx: &Ctx) {
    set_rule("C04", "the C03 pools and mutation programs (plus the unmodified files), each presented through a scripted reader (1-byte dribble and other short-read schedules, so that the ciphertext offset at every write is known at byte granularity) to a recording sink, optionally with one injected read/write/flush fault; the invariant of DESIGN A.3 is evaluated over the interleaved event log. SSE: every bit flip / truncation / extension / record sequence of the hook streams and of 4 key-mode files under the dribble schedule. Non-trivial = the run ended in an error after at least one chunk had been released, or a non-authentic record follows at least one authentic record; distinct by hash of the case / enumeration index");
    ctx.assume("the statement does not forbid writing the authentic final chunk before probing for trailing data, so that order is not asserted - only that success is not reported");
    let seed = ctx.seed;
    let mk = |sel, m: Mutant| MCase { sel, pool_seed: seed, m, full: true, rs: RSched::dribble(1), ws: WSched::all(), fault: None };
    let p = mutate::pool(PoolSel::Hook, seed);
    let mut cases = Vec::new();
    for b in 0..p.files.len() { cases.push(mk(PoolSel::Hook, Mutant { base: b, ops: vec![] })); for m in mutate::sse_space(&p, b, 4, &[(b + 3) % p.files.len()]) { cases.push(mk(PoolSel::Hook, m)); } }
    ctx.sse_vec("sse_hook_dribble", "36 hook streams: identity + all bit flips, truncations, extensions, record sequences <=4, flag/len edits; reader delivers 1 byte per call", cases, check);
    let p = mutate::pool(PoolSel::KeySmall, seed);
    let mut cases = Vec::new();
    for b in 0..(if ctx.quick() { 4 } else { 16 }) { cases.push(mk(PoolSel::KeySmall, Mutant { base: b, ops: vec![] })); for m in mutate::sse_space(&p, b, 3, &super::c03::neighbours(&p, b)) { cases.push(mk(PoolSel::KeySmall, m)); } }
    ctx.sse_vec("sse_keyfile_dribble", "key-mode files: identity + all bit flips, truncations, extensions, record sequences <=3, header/chunk exchange; 1-byte reads", cases, check);
    // SSE over fault positions for two files: every call index on each side
    let mut cases = Vec::new();
    for b in [1usize, 2] { for side in [crate::sio::Side::Read, crate::sio::Side::Write, crate::sio::Side::Flush] { for k in 1..=(if side == crate::sio::Side::Read { p.files[b].bytes.len() + 2 } else { 12 }) { for kind in crate::sio::FKINDS {
        cases.push(MCase { sel: PoolSel::KeySmall, pool_seed: seed, m: Mutant { base: b, ops: vec![] }, full: true, rs: RSched::dribble(1), ws: WSched::dribble(3), fault: Some(Fault { side, k, kind }) }); } } } }
    ctx.sse_vec("sse_fault_positions", "2 authentic key-mode files x every read/write/flush call index x 8 fault kinds, 1-byte reads, 3-byte writes", cases, check);
    // at the command line: after a later chunk fails the -o file holds exactly the authenticated prefix (shared with C13)
    let mut cli = Vec::new();
    for cmd in [super::c13::Command::Decrypt, super::c13::Command::PassDecrypt] { for j in 1..4u8 { for truncate in [false, true] { for prior in [false, true] { for k in 0..ctx.n(1, 6) { cli.push(super::c13::Case { cmd, cause: super::c13::Cause::LaterChunk { j, truncate }, prior, inst: seed.wrapping_mul(77).wrapping_add(k * 131 + cli.len() as u64), link: j == 2 && !truncate }); } } } } }
    ctx.sse_vec("cli_output_after_later_chunk_failure", "decrypt / password decrypt x chunk j in 1..3 x {corrupt, truncate} x output path {absent, longer file present}", cli, super::c13::check);
    // success is never reported for a decryption that did not get to verify and deliver the final chunk because its reader went away (shared with C12)
    { use super::c12::{Case as C12, Req, FileKind, SenderPos, Sink, wiring_from}; let mut v = Vec::new();
      for (i, req) in [Req::KeyDec(FileKind::Authentic), Req::PassDec(FileKind::Authentic), Req::KeyDec(FileKind::CorruptLater)].into_iter().enumerate() { for sink in [Sink::ClosedPipe, Sink::DevFull] { for len in [1usize, 70_000, 300_000] { v.push(C12 { req, plain: crate::gen::Plain { len, seed: seed + 40 + i as u64 }, chunks: vec![], pos: SenderPos::First, wirings: vec![wiring_from(0)], sink, sel: seed, prior_out: None, env_decoy: 0, in_name: 0, typed: false, out_kinds: vec![], in_kinds: vec![], names: 0 }); } } }
      ctx.sse_vec("cli_plaintext_reader_gone", "decrypt / password decrypt with stdout a pipe whose reader has gone, or /dev/full, x {1 B, 70 kB, 300 kB}: exit 1, no sender line - never success", v, super::c12::check); }
    ctx.pbt("pbt_key_small", ctx.n(40_000, 1_000_000), || strat(PoolSel::KeySmall, seed, 5, 25, 100, false), check);
    ctx.pbt("pbt_hook", ctx.n(40_000, 1_000_000), || strat(PoolSel::HookPass, seed, 5, 25, 100, false), check);
    ctx.pbt("pbt_key_large", ctx.n(1_500, 30_000), || strat(PoolSel::KeyLarge, seed, 3, 25, 100, true), check);
    ctx.pbt("pbt_pass", ctx.n(3_000, 40_000), || strat(PoolSel::Pass, seed, 4, 25, 4, false), check);
}
