//! C08 — files reveal no identities; size depends only on plaintext and chunking.
use crate::cli::{self, Sandbox};
use crate::core::{ok, set_rule, CheckResult, Ctx};
use crate::ensure;
use crate::gen::{self, Plain, CS};
use crate::kx;
use crate::sio::{read_sizes, RSched, WSched};
use proptest::prelude::*;
use serde::{Deserialize, Serialize};

#[derive(Clone, Debug, Serialize, Deserialize)]
pub struct Pair { pub plain: Plain, pub prs: RSched, pub s1: u64, pub r1: u64, pub s2: u64, pub r2: u64, pub e: u64, pub p: u64 }
#[derive(Clone, Debug, Serialize, Deserialize)]
pub struct PassPair { pub plain: Plain, pub prs: RSched, pub w1: Vec<u8>, pub w2: Vec<u8>, pub salt: u64 }
#[derive(Clone, Debug, Serialize, Deserialize)]
pub struct CliCase { pub len: usize, pub names: (String, String), pub seed: u64, pub pass_mode: bool, pub to_stdout: bool,
    /// the FILE argument names a FIFO fed in pieces: the chunking is whatever the reads return, the length formula must still hold
    #[serde(default)] pub fifo: bool }

/// Parse by the documented layout; returns (cleartext fields, ciphertext lengths) or what is wrong.
fn layout(f: &[u8], hdr: usize, reads: &[usize], plain_len: usize) -> Result<Vec<u8>, String> {
    let lens: Vec<usize> = if reads.is_empty() { vec![0] } else { reads.to_vec() };
    let want_len = hdr + lens.iter().map(|l| 32 + l).sum::<usize>();
    ensure!(f.len() == want_len, "file is {} bytes; the format gives {} + 32 per chunk + plaintext = {} bytes for reads {:?}", f.len(), hdr, want_len, reads);
    ensure!(lens.iter().sum::<usize>() == plain_len, "the encryptor stopped reading after {} of {} plaintext bytes (reads {:?})", lens.iter().sum::<usize>(), plain_len, reads);
    let mut clear = f[..36.min(hdr)].to_vec(); let mut off = hdr;
    for (i, l) in lens.iter().enumerate() {
        let ctr = u64::from_be_bytes(f[off..off + 8].try_into().unwrap()); let flag = u32::from_be_bytes(f[off + 8..off + 12].try_into().unwrap()); let len = u32::from_be_bytes(f[off + 12..off + 16].try_into().unwrap()) as usize;
        ensure!(ctr == i as u64, "chunk {} carries counter {}", i, ctr);
        ensure!(flag == if i + 1 == lens.len() { 1 } else { 0 }, "chunk {} of {} carries last-chunk flag {}", i, lens.len(), flag);
        ensure!(len == *l, "chunk {} has length field {}, the read returned {}", i, len, l);
        clear.extend_from_slice(&f[off..off + 16]); off += 32 + l;
    }
    ensure!(off == f.len(), "bytes follow the final chunk");
    Ok(clear)
}
fn needles(pk: &[u8; 32]) -> Vec<(Vec<u8>, &'static str)> {
    let mut v = vec![(pk.to_vec(), "raw public key"), (kspec::encode_public_key(pk).into_bytes(), "keyring encoding of the public key"), (kspec::base64(pk).trim_end_matches('=').as_bytes().to_vec(), "base64 of the raw public key"), (kspec::hex(pk).into_bytes(), "hex of the public key")];
    v.push((pk[..16].to_vec(), "first half of the raw public key")); v.push((pk[16..].to_vec(), "second half of the raw public key"));
    v
}
fn find(hay: &[u8], n: &[u8]) -> bool { !n.is_empty() && hay.windows(n.len()).any(|w| w == n) }

pub fn check_pair(c: &Pair) -> CheckResult {
    let p = c.plain.bytes(); let (e, pl) = (gen::key32(c.e, "E"), gen::key32(c.p, "P"));
    let mut files = Vec::new();
    for (s, r) in [(c.s1, c.r1), (c.s2, c.r2)] {
        let (s, r) = (kx::ident(s, "S"), kx::ident(r, "R"));
        let (res, sh) = kx::key_encrypt(&p, &c.prs, &WSched::all(), None, &s.sk, &s.pk, &r.pk, Some(&e), Some(&pl));
        ensure!(res.is_ok(), "key_encrypt failed: {:?}", res);
        let reads = read_sizes(&sh); let f = sh.sink.take();
        let clear = layout(&f, 132, &reads, p.len())?;
        ensure!(f[..4] == kspec::MAGIC_KEY && f[4..36] == kspec::x25519_base(&e), "header does not start with the magic and the supplied ephemeral public key");
        for id in [&s, &r] { for (n, what) in needles(&id.pk) { ensure!(!find(&f, &n), "the {} of a {} occurs in the encrypted file", what, if std::ptr::eq(id, &s) { "sender" } else { "recipient" }); } }
        files.push((f, clear, reads));
    }
    ensure!(files[0].0.len() == files[1].0.len(), "file length depends on the identities ({} vs {} bytes)", files[0].0.len(), files[1].0.len());
    ensure!(files[0].1 == files[1].1, "cleartext fields differ between two sender/recipient pairs given the same ephemeral key, plaintext and reads");
    ok(!p.is_empty() && (c.s1, c.r1) != (c.s2, c.r2), format!("key/{}chunks", files[0].2.len().min(4)))
}
/// Same sender, same supplied payload key, ephemeral key left to the implementation: every file must still get its own
/// ephemeral key (a header field derived from the sender and the payload key would link the files of one sender).
pub fn check_ponly(c: &Pair) -> CheckResult {
    let p = c.plain.bytes(); let pl = gen::key32(c.p, "P"); let s = kx::ident(c.s1, "S");
    let mut eph = Vec::new();
    for r in [c.r1, c.r2, c.r1] { let r = kx::ident(r, "R");
        let (res, sh) = kx::key_encrypt(&p, &c.prs, &WSched::all(), None, &s.sk, &s.pk, &r.pk, None, Some(&pl)); ensure!(res.is_ok(), "key_encrypt failed: {:?}", res);
        let f = sh.sink.take(); let reads = read_sizes(&sh); layout(&f, 132, &reads, p.len())?; eph.push(f[4..36].to_vec()); }
    ensure!(eph[0] != eph[1] && eph[0] != eph[2] && eph[1] != eph[2], "with the payload key supplied and the ephemeral key left to the implementation, two files of the same sender carry the same ephemeral public key");
    ok(true, "ponly/fresh-ephemeral")
}
/// Only one half of the ephemeral pair supplied (the API then uses a pair of its own): the header field is still an
/// ephemeral key - not a party's key - and no identity shows anywhere in the file.
pub fn check_ehalf(c: &Pair) -> CheckResult {
    let p = c.plain.bytes(); let eb = gen::key32(c.e, "E"); let epub = kspec::x25519_base(&eb); let mut fields = Vec::new();
    for (k, (s, r)) in [(c.s1, c.r1), (c.s2, c.r2)].into_iter().enumerate() { for private_half in [true, false] {
        let (s, r) = (kx::ident(s, "S"), kx::ident(r, "R"));
        let (res, sh) = kx::key_encrypt_halves(&p, &c.prs, &WSched::all(), &s.sk, &s.pk, &r.pk, if private_half { Some(&eb) } else { None }, if private_half { None } else { Some(&epub) }, None);
        ensure!(res.is_ok(), "key_encrypt failed: {:?}", res);
        let reads = read_sizes(&sh); let f = sh.sink.take(); layout(&f, 132, &reads, p.len())?;
        for id in [&s, &r] { for (n, what) in needles(&id.pk) { ensure!(!find(&f, &n), "with only the {} half of an ephemeral pair supplied, the {} of the {} occurs in the encrypted file", if private_half { "private" } else { "public" }, what, if std::ptr::eq(id, &s) { "sender" } else { "recipient" }); } }
        fields.push((k, f[4..36].to_vec()));
    } }
    // an ephemeral field that follows the identities (same for one pair, different across pairs) would link files to parties
    if (c.s1, c.r1) != (c.s2, c.r2) { ensure!(!(fields[0].1 == fields[1].1 && fields[2].1 == fields[3].1 && fields[0].1 != fields[2].1), "the ephemeral field is a function of the identities when half a pair is supplied"); }
    ok(true, "ephemeral-half/no-identity")
}
pub fn check_pass_pair(c: &PassPair) -> CheckResult {
    let p = c.plain.bytes(); let salt = gen::key32(c.salt, "salt"); let mut files = Vec::new();
    for w in [&c.w1, &c.w2] {
        let (res, sh) = kx::pass_encrypt(&p, &c.prs, &WSched::all(), None, w, salt); ensure!(res.is_ok(), "pass_encrypt failed: {:?}", res);
        let reads = read_sizes(&sh); let f = sh.sink.take(); let clear = layout(&f, 36, &reads, p.len())?;
        ensure!(f[..4] == kspec::MAGIC_PASS && f[4..36] == salt, "header is not magic || supplied salt");
        if w.len() >= 12 { ensure!(!find(&f, w), "the password occurs in the encrypted file"); }
        files.push((f, clear));
    }
    ensure!(files[0].0.len() == files[1].0.len() && files[0].1 == files[1].1, "length or cleartext fields depend on the password");
    ok(!p.is_empty() && c.w1 != c.w2, "pass")
}
pub fn check_cli(c: &CliCase) -> CheckResult {
    let sb = Sandbox::new(); let p = gen::bytes_from(c.seed, c.len); if !c.fifo { sb.write("m.bin", &p); }
    let feed = |mut cmd: cli::Cmd| -> cli::Cmd { if c.fifo { cmd.fifos.push(("m.bin".into(), p.clone(), vec![c.len / 3 + 1, c.len / 3 + 1])); } cmd };
    let nchunks = if c.len == 0 { 1 } else { (c.len + CS - 1) / CS };
    let f = if c.pass_mode {
        let r = if c.to_stdout { feed(sb.cmd(&["password", "encrypt", "m.bin", "--env-pass"]).env("KESTREL_PASSWORD", &c.names.0)).run() } else { feed(sb.cmd(&["password", "encrypt", "m.bin", "-o", "c.ktl", "--env-pass"]).env("KESTREL_PASSWORD", &c.names.0)).run() }; ensure!(r.code == Some(0), "password encrypt failed: {}", r.describe());
        let f = if c.to_stdout { r.stdout.clone() } else { sb.read("c.ktl").ok_or("no output")? }; let nchunks = if c.fifo { kspec::parse_records(&f[36.min(f.len())..]).map(|r| r.len()).unwrap_or(nchunks) } else { nchunks }; ensure!(f.len() == 36 + 32 * nchunks + c.len, "password-mode file is {} bytes for {} plaintext bytes in {} chunks", f.len(), c.len, nchunks);
        if c.names.0.len() >= 12 { ensure!(!find(&f, c.names.0.as_bytes()), "password occurs in the file"); } f
    } else {
        let (a, b) = (cli::make_ident(&c.names.0, c.seed, "pw"), cli::make_ident(&c.names.1, c.seed ^ 1, "pw"));
        sb.write("k.txt", cli::keyring_text(&[(&a, true), (&b, false)]).as_bytes());
        let r = if c.to_stdout { feed(sb.cmd(&["encrypt", "m.bin", "-t", &c.names.1, "-f", &c.names.0, "-k", "k.txt", "--env-pass"]).env("KESTREL_PASSWORD", "pw")).run() } else { feed(sb.cmd(&["encrypt", "m.bin", "-t", &c.names.1, "-f", &c.names.0, "-o", "c.ktl", "-k", "k.txt", "--env-pass"]).env("KESTREL_PASSWORD", "pw")).run() }; ensure!(r.code == Some(0), "encrypt failed: {}", r.describe());
        let f = if c.to_stdout { r.stdout.clone() } else { sb.read("c.ktl").ok_or("no output")? }; let nchunks = if c.fifo { kspec::parse_records(&f[132.min(f.len())..]).map(|r| r.len()).unwrap_or(nchunks) } else { nchunks }; ensure!(f.len() == 132 + 32 * nchunks + c.len, "key-mode file is {} bytes for {} plaintext bytes in {} chunks", f.len(), c.len, nchunks);
        for (n, who) in [(&c.names.0, "sender"), (&c.names.1, "recipient")] { ensure!(!find(&f, n.as_bytes()), "the keyring name of the {} occurs in the file", who); }
        for id in [&a, &b] { for (n, what) in needles(&id.pk) { ensure!(!find(&f, &n), "the {} occurs in a file written by the CLI", what); } } f
    };
    let hdr = if c.pass_mode { 36 } else { 132 };
    let reads: Vec<usize> = if c.fifo { kspec::parse_records(&f[hdr.min(f.len())..]).ok_or("the file written from a FIFO does not parse into records")?.iter().map(|r| r.len_field as usize).filter(|&l| l > 0).collect() } else { (0..nchunks).map(|i| if c.len == 0 { 0 } else { (c.len - i * CS).min(CS) }).filter(|&l| l > 0).collect() };
    ensure!(reads.iter().sum::<usize>() == c.len, "the chunks of the file hold {} plaintext bytes, the input had {}", reads.iter().sum::<usize>(), c.len);
    layout(&f, hdr, &reads, c.len)?;
    ok(c.len > 0, format!("cli/{}/{}chunks", if c.pass_mode { "pass" } else { "key" }, nchunks.min(4)))
}

pub fn run(ctx: &Ctx) {
    set_rule("C08", "pairs of key_encrypt runs that differ only in the identities (same ephemeral key, payload key, plaintext and read schedule), pairs of pass_encrypt runs that differ only in the password, and CLI runs with keyrings whose names are >= 12 random characters. Oracles: length = 132 (36) + 32 per chunk + plaintext length with one chunk per non-empty read; parsed by the documented layout the file is magic, the supplied ephemeral public key (salt), counters 0..n-1, flags 0..0 1, lengths = the reads, and nothing else; the two files of a pair have equal length and identical cleartext fields; no public key (raw, halves, hex, base64, keyring encoding), password or keyring name occurs as a substring. Non-trivial = non-empty plaintext and differing identities; distinct by hash of the case");
    ctx.assume("needles are >= 12 bytes so a chance occurrence has probability < 2^-64");
    let max = if ctx.quick() { 300_000 } else { 2 << 20 };
    ctx.pbt("identity_swap_pairs", ctx.n(25_000, 300_000), || (gen::plain_strategy(max), any::<[u64; 6]>()).prop_flat_map(|(plain, k)| { let l = plain.len; (Just(plain), gen::rsched_for(l), Just(k)) }).prop_map(|(plain, prs, k)| Pair { plain, prs, s1: k[0], r1: k[1], s2: k[2], r2: k[3], e: k[4], p: k[5] }), check_pair);
    ctx.pbt("payload_given_ephemeral_fresh", ctx.n(4_000, 100_000), || (gen::small_plain(300), gen::rsched_strategy(), any::<[u64; 6]>()).prop_map(|(plain, prs, k)| Pair { plain, prs, s1: k[0], r1: k[1], s2: k[2], r2: k[3], e: k[4], p: k[5] }), check_ponly);
    ctx.pbt("ephemeral_half_supplied", ctx.n(4_000, 100_000), || (gen::small_plain(300), gen::rsched_strategy(), any::<[u64; 6]>()).prop_map(|(plain, prs, k)| Pair { plain, prs, s1: k[0], r1: k[1], s2: k[2], r2: k[3], e: k[4], p: k[5] }), check_ehalf);
    ctx.pbt("password_swap_pairs", ctx.n(100, 2_000), || (gen::small_plain(400), gen::rsched_strategy(), gen::password_strategy(), gen::password_strategy(), any::<u64>()).prop_map(|(plain, prs, w1, w2, salt)| PassPair { plain, prs, w1, w2, salt }), check_pass_pair);
    ctx.shrink_iters.store(20, std::sync::atomic::Ordering::Relaxed);
    // large regular files whose length is an exact multiple of the chunk size, one chunk more, one byte more: the length formula has no exceptions
    { let mut v = Vec::new(); for (i, len) in [128 * CS, 128 * CS + 1, 129 * CS, 256 * CS, 300 * CS - 1].into_iter().enumerate() { for pass_mode in [false, true] { v.push(CliCase { len, names: ("sender-name-large".into(), "recipient-name-large".into()), seed: 90 + i as u64, pass_mode, to_stdout: false, fifo: false }); } }
      ctx.sse_vec("cli_large_exact_multiples", "8 MiB, 8 MiB + 1 B, 8 MiB + 64 KiB, 16 MiB, 300 chunks - 1 B through the binary, both modes, file to file", v, check_cli); }
    ctx.pbt("cli_files", ctx.n(40, 800), || (prop_oneof![3 => 0usize..3000, 1 => Just(CS), 1 => Just(CS + 1), 1 => CS..3 * CS], ("[a-zA-Z0-9]{12,24}", "[a-zA-Z0-9]{12,24}"), any::<u64>(), prop::bool::weighted(0.25), any::<bool>(), prop::bool::weighted(0.3)).prop_map(|(len, names, seed, pass_mode, to_stdout, fifo)| CliCase { len, names, seed, pass_mode, to_stdout, fifo }), check_cli);
}
