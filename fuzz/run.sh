#!/bin/bash
# libFuzzer campaigns for the thorough tier and replay of fuzz artefacts.
#   run.sh build                       cargo +nightly fuzz build (offline)
#   run.sh campaign <ID>               bounded campaigns of the targets that carry <ID>'s oracle; merges statistics into evidence/<ID>.json
#   run.sh replay <ID> <artifact>      run the target the artefact belongs to on that input
set -u
ROOT="$(cd "$(dirname "$0")/.." && pwd)"
export VERIF_ROOT="$ROOT"
cd "$ROOT/fuzz" || exit 2
export CARGO_NET_OFFLINE=true
BIN=$ROOT/target/x86_64-unknown-linux-gnu/release
targets_for() {
  case "$1" in
    C03) echo "keyfile_mut chunks_raw" ;;
    C04) echo "keyfile_mut" ;;
    C09) echo "noise_msg aead_open chunks_raw keyfile_mut keyring_parse encoded_keys" ;;
    C15) echo "encoded_keys" ;;
    C17) echo "keyring_parse encoded_keys" ;;
    C18) echo "scrypt_ffi" ;;
    C19) echo "aead_open" ;;
    *) echo "" ;;
  esac
}
build() {
  exec 8>$ROOT/.fuzzbuild.lock; flock 8
  local h; h=$( (cd /repo && find src Cargo.toml Cargo.lock -type f \( -name '*.rs' -o -name '*.toml' -o -name '*.lock' \) -print0 | sort -z | xargs -0 sha256sum; sha256sum $ROOT/fuzz/Cargo.toml $ROOT/fuzz/src/*.rs $ROOT/fuzz/fuzz_targets/*.rs $ROOT/crates/kverif/src/*.rs $ROOT/crates/kspec/src/*.rs) | sha256sum | cut -d' ' -f1)
  if [ "$(cat $ROOT/target/fuzz.stamp 2>/dev/null)" != "$h" ]; then
    # cargo decides staleness by mtime; force the path packages to rebuild when contents changed
    (cd $ROOT/fuzz && cargo clean --release --target x86_64-unknown-linux-gnu -p kestrel-crypto -p kverif-fuzz >/dev/null 2>&1)
    rm -f $ROOT/target/fuzz.stamp
  fi
  cargo +nightly fuzz build >$ROOT/target/fuzz-build.log 2>&1
  local rc=$?
  [ $rc -eq 0 ] && echo "$h" > $ROOT/target/fuzz.stamp
  flock -u 8
  return $rc
}
case "${1:-}" in
  build) build; exit $? ;;
  replay)
    ID="$2"; FILE="$3"
    T=$(basename "$(dirname "$FILE")")
    [ -x "$BIN/$T" ] || build || { echo "fuzz: build failed" >&2; exit 2; }
    KFUZZ_PROP="$ID" "$BIN/$T" "$FILE" >$ROOT/target/fuzz-replay.log 2>&1
    if [ $? -ne 0 ]; then grep -E "panicked|ERROR|SUMMARY" $ROOT/target/fuzz-replay.log | head -5; echo "VIOLATION property=$ID replay=$FILE"; exit 1; fi
    echo "replay: property $ID held on $FILE"; exit 0 ;;
  campaign)
    ID="$2"; TS=$(targets_for "$ID")
    [ -n "$TS" ] || exit 0
    if ! build; then
      echo "fuzz: skipped (build failed, see $ROOT/target/fuzz-build.log)" >&2
      python3 $ROOT/fuzz/merge_evidence.py "$ID" skipped "cargo +nightly fuzz build failed"; exit 0
    fi
    RUNS="${VERIF_FUZZ_RUNS:-1500000}"; SEED="${VERIF_SEED:-1}"; [ "$SEED" = "0" ] && SEED=1
    rc=0; pids=()
    for T in $TS; do
      W=$ROOT/fuzz/corpus-work/$ID-$T; A=$ROOT/fuzz/artifacts/$T; rm -rf "$W"; mkdir -p "$W" "$A"
      R=$RUNS; case "$T" in scrypt_ffi) R=$((RUNS/10)) ;; keyfile_mut) R=$((RUNS/2)) ;; esac
      EXTRA=""; [ -d "$ROOT/replays/$ID/$T" ] && EXTRA="$ROOT/replays/$ID/$T"
      ( KFUZZ_PROP="$ID" "$BIN/$T" "$W" "$ROOT/corpus/$T" $EXTRA -runs="$R" -seed="$SEED" -max_len=4096 -len_control=0 -timeout=30 -rss_limit_mb=4096 -artifact_prefix="$A/" -print_final_stats=1 >"$ROOT/target/fuzz-$ID-$T.log" 2>&1; echo $? >"$ROOT/target/fuzz-$ID-$T.rc" ) &
      pids+=($!)
    done
    wait "${pids[@]}"
    for T in $TS; do
      r=$(cat "$ROOT/target/fuzz-$ID-$T.rc" 2>/dev/null || echo 2)
      if [ "$r" != "0" ]; then
        art=$(grep -oE "Test unit written to \S+" "$ROOT/target/fuzz-$ID-$T.log" | tail -1 | awk '{print $NF}')
        if [ -n "$art" ] && [ -f "$art" ]; then
          if grep -qE "timeout|out-of-memory" "$ROOT/target/fuzz-$ID-$T.log"; then echo "fuzz: $T timed out / exceeded memory on $art: inconclusive" >&2; [ $rc -eq 0 ] && rc=2
          else mkdir -p "$ROOT/replays/$ID/$T"; cp "$art" "$ROOT/replays/$ID/$T/"; grep -E "panicked" "$ROOT/target/fuzz-$ID-$T.log" | head -2; echo "VIOLATION property=$ID replay=$ROOT/replays/$ID/$T/$(basename "$art")"; rc=1; fi
        else echo "fuzz: $T ended with status $r without an artefact: inconclusive" >&2; [ $rc -eq 0 ] && rc=2; fi
      fi
    done
    python3 $ROOT/fuzz/merge_evidence.py "$ID" ran $TS
    exit $rc ;;
  *) echo "usage: run.sh build | campaign <ID> | replay <ID> <file>" >&2; exit 2 ;;
esac
