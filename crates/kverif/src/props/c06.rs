//! C06 — files conform byte-for-byte to the documented, frozen wire format.
use crate::core::{ok, set_rule, CheckResult, Ctx};
use crate::ensure;
use crate::gen::{self, Plain, CS};
use crate::kx::{self, DecRes};
use crate::sio::{read_sizes, RSched, WSched};
use kestrel_crypto as kc;
use proptest::prelude::*;
use serde::{Deserialize, Serialize};

#[derive(Clone, Debug, Serialize, Deserialize)]
pub struct KeyDiff { pub plain: Plain, pub s: u64, pub r: u64, pub e: u64, pub p: u64, pub prs: RSched,
    /// the recipient key is handed over in a non-canonical encoding (bit 255 set): Noise hashes the bytes as given
    #[serde(default)] pub noncanon_recipient: bool }
#[derive(Clone, Debug, Serialize, Deserialize)]
pub struct PassDiff { pub plain: Plain, pub w: Vec<u8>, pub salt: u64, pub prs: RSched }
#[derive(Clone, Debug, Serialize, Deserialize)]
pub struct SpecFile { pub plain: Plain, pub s: u64, pub r: u64, pub e: u64, pub p: u64, pub head: Vec<usize>, pub tail: usize, pub pass: Option<Vec<u8>>, pub crs: RSched,
    /// the ephemeral (1) / static sender (2) public key travels in a non-canonical encoding (bit 255 set)
    #[serde(default)] pub noncanon: u8 }
#[derive(Clone, Debug, Serialize, Deserialize)]
pub struct NonceCase { pub key: u64, pub counter: u64, pub ad_len: usize, pub msg_len: usize }
#[derive(Clone, Debug, Serialize, Deserialize)]
pub struct Golden { pub idx: usize }

fn nontrivial_lens(lens: &[usize]) -> bool { lens.len() >= 2 || lens.iter().enumerate().any(|(i, &l)| l != CS && i + 1 != lens.len()) }

pub fn check_key(c: &KeyDiff) -> CheckResult {
    let p = c.plain.bytes(); let s = kx::ident(c.s, "S"); let r = kx::ident(c.r, "R"); let e = gen::key32(c.e, "E"); let pl = gen::key32(c.p, "P");
    let mut rpk = r.pk; if c.noncanon_recipient { rpk[31] |= 0x80; }
    let (res, sh) = kx::key_encrypt(&p, &c.prs, &WSched::all(), None, &s.sk, &s.pk, &rpk, Some(&e), Some(&pl));
    ensure!(res.is_ok(), "key_encrypt failed: {:?}", res);
    let lens = read_sizes(&sh); let ct = sh.sink.take();
    let spec = kspec::key_file(&s.sk, &rpk, &e, &pl, &p, &lens);
    if c.noncanon_recipient { // the recipient, using the same spelling of its own key, decrypts it
        let (dres, dsh) = kx::key_decrypt(&spec, &RSched::full(), &WSched::all(), None, &r.sk, &rpk);
        ensure!(matches!(dres, DecRes::Ok(Some(x)) if x == s.pk) && *dsh.sink.borrow() == p, "a conforming file addressed to a non-canonically encoded recipient key was not decrypted: {:?}", dres); }
    if ct != spec {
        let at = ct.iter().zip(spec.iter()).position(|(a, b)| a != b).unwrap_or(ct.len().min(spec.len()));
        return Err(format!("key_encrypt output differs from the documented format at byte {} (lengths {} vs {}; region {}; chunk lengths {:?})", at, ct.len(), spec.len(), if at < 4 { "magic" } else if at < 36 { "ephemeral key" } else if at < 84 { "encrypted static key" } else if at < 132 { "encrypted payload key" } else { "chunk area" }, lens));
    }
    ok(nontrivial_lens(&lens), format!("key/{}chunks", lens.len().min(5)))
}
pub fn check_pass(c: &PassDiff) -> CheckResult {
    let p = c.plain.bytes(); let salt = gen::key32(c.salt, "salt");
    let (res, sh) = kx::pass_encrypt(&p, &c.prs, &WSched::all(), None, &c.w, salt);
    ensure!(res.is_ok(), "pass_encrypt failed: {:?}", res);
    let lens = read_sizes(&sh); let ct = sh.sink.take();
    let spec = kspec::pass_file(&c.w, &salt, &p, &lens);
    if ct != spec { let at = ct.iter().zip(spec.iter()).position(|(a, b)| a != b).unwrap_or(ct.len().min(spec.len())); return Err(format!("pass_encrypt output differs from the documented format at byte {} (lengths {} vs {}; chunk lengths {:?}; |w|={})", at, ct.len(), spec.len(), lens, c.w.len())); }
    ok(nontrivial_lens(&lens), format!("pass/{}chunks", lens.len().min(5)))
}
fn legal_chunking(len: usize, head: &[usize], tail: usize) -> Vec<usize> {
    let mut lens = Vec::new(); let mut left = len;
    for &h in head { if left == 0 { break; } let l = h.clamp(1, CS).min(left); lens.push(l); left -= l; }
    let t = tail.clamp(1, CS); while left > 0 { let l = t.min(left); lens.push(l); left -= l; }
    lens
}
pub fn check_spec_file(c: &SpecFile) -> CheckResult {
    let p = c.plain.bytes(); let lens = legal_chunking(p.len(), &c.head, c.tail);
    match &c.pass {
        None => {
            // one file in eight is addressed to the sender's own key (sender = recipient is a legitimate use)
            let s = kx::ident(c.s, "S"); let r = if c.r % 8 == 0 { s.clone() } else { kx::ident(c.r, "R") }; let e = gen::key32(c.e, "E"); let pl = gen::key32(c.p, "P");
            let (mut epub, mut spub) = (kspec::x25519_base(&e), s.pk); if c.noncanon == 1 { epub[31] |= 0x80; } if c.noncanon == 2 { spub[31] |= 0x80; }
            let f = if c.noncanon == 0 { kspec::key_file(&s.sk, &r.pk, &e, &pl, &p, &lens) } else { let (msg, h) = kspec::key_header(&s.sk, &spub, &r.pk, &e, &epub, &pl); let mut f = kspec::MAGIC_KEY.to_vec(); f.extend_from_slice(&msg); kspec::write_chunks(&mut f, &kspec::file_key(&pl, &h), &[], &p, &lens); f };
            let (res, sh) = kx::key_decrypt(&f, &c.crs, &WSched::all(), None, &r.sk, &r.pk);
            match res { DecRes::Ok(Some(snd)) => { ensure!(*sh.sink.borrow() == p, "conforming key-mode file decrypted to different bytes (chunk lengths {:?})", lens); ensure!(snd == spub, "conforming key-mode file: the sender key reported is not the key bytes that were sent"); }
                other => return Err(format!("a file conforming to the documented key-mode format was rejected: {:?} (|P|={}, chunk lengths {:?})", other, p.len(), lens)) }
        }
        Some(w) => {
            let salt = gen::key32(c.s, "salt");
            let f = kspec::pass_file(w, &salt, &p, &lens);
            let (res, sh) = kx::pass_decrypt(&f, &c.crs, &WSched::all(), None, w);
            ensure!(res.is_ok(), "a file conforming to the documented password-mode format was rejected: {:?} (chunk lengths {:?})", res, lens);
            ensure!(*sh.sink.borrow() == p, "conforming password-mode file decrypted to different bytes");
        }
    }
    let never_emitted = lens.windows(2).any(|w| w[0] < CS && w[1] == CS);
    ok(nontrivial_lens(&lens), format!("{}/{}{}", if c.pass.is_some() { "pass" } else { "key" }, if lens.len() >= 2 { "multi" } else { "single" }, if never_emitted { "+full-after-short" } else { "" }))
}
pub fn check_nonce(c: &NonceCase) -> CheckResult {
    let key = gen::key32(c.key, "aead"); let ad = gen::bytes_from(c.key ^ 1, c.ad_len); let m = gen::bytes_from(c.key ^ 2, c.msg_len);
    let got = kc::verif_chapoly_encrypt_noise(&key, c.counter, &ad, &m);
    let want = kspec::aead_seal(&key, &kspec::noise_nonce(c.counter), &ad, &m);
    ensure!(got == want, "Noise-style AEAD for counter {:#x} differs from ChaCha20-Poly1305 under nonce 00000000||LE64(counter)", c.counter);
    let back = kc::verif_chapoly_decrypt_noise(&key, c.counter, &ad, &want).map_err(|_| format!("Noise-style open rejects a conforming ciphertext for counter {:#x}", c.counter))?;
    ensure!(back == m, "Noise-style open returned different bytes");
    ok(c.counter > 255, if c.counter >= 1 << 32 { "counter>=2^32" } else if c.counter > 255 { "counter>255" } else { "counter<=255" })
}

// ---- golden corpus
#[derive(Clone, Debug, Serialize, Deserialize)]
pub struct GoldenEntry { pub file: String, pub mode: String, pub recipient_sk: String, pub sender_pk: String, pub password_hex: String, pub plain_len: usize, pub plain_seed: u64, pub plain_sha256: String, pub chunk_lens: Vec<usize>, pub written_by: String }
pub fn load_golden(root: &std::path::Path) -> Vec<GoldenEntry> {
    std::fs::read_to_string(root.join("golden/manifest.json")).ok().and_then(|t| serde_json::from_str(&t).ok()).unwrap_or_default()
}
pub fn check_golden_entry(root: &std::path::Path, g: &GoldenEntry) -> CheckResult {
    let f = std::fs::read(root.join("golden").join(&g.file)).map_err(|e| format!("golden file {} unreadable: {}", g.file, e))?;
    let (res, sh) = if g.mode == "key" {
        let sk: [u8; 32] = kspec::unhex(&g.recipient_sk).try_into().unwrap();
        kx::key_decrypt(&f, &RSched::full(), &WSched::all(), None, &sk, &kspec::x25519_base(&sk))
    } else { kx::pass_decrypt(&f, &RSched::full(), &WSched::all(), None, &kspec::unhex(&g.password_hex)) };
    match &res {
        DecRes::Ok(snd) => {
            let out = sh.sink.borrow();
            ensure!(out.len() == g.plain_len && kspec::hex(&kspec::sha256(&out)) == g.plain_sha256, "golden file {} decrypts to different bytes", g.file);
            if let Some(s) = snd { ensure!(kspec::hex(s) == g.sender_pk, "golden file {}: wrong sender reported", g.file); }
        }
        other => return Err(format!("golden file {} (written by {}) no longer decrypts: {:?}", g.file, g.written_by, other)),
    }
    ok(g.chunk_lens.len() >= 2 || g.plain_len == 0, format!("golden/{}", g.mode))
}
pub fn gen_golden(dir: &std::path::Path) -> i32 {
    let _ = std::fs::create_dir_all(dir);
    let mut entries: Vec<GoldenEntry> = Vec::new();
    let shapes: Vec<Vec<usize>> = vec![vec![], vec![1], vec![13], vec![CS - 1], vec![CS], vec![CS, 1], vec![CS, CS], vec![CS, CS, 1], vec![CS, CS, CS, 200_000 - 3 * CS], vec![5, 7, 1], vec![100, CS, 3], vec![CS - 1, 1, 1], vec![40_000, 40_000, 40_000]];
    for (i, lens) in shapes.iter().enumerate() {
        let len: usize = lens.iter().sum(); let seed = 1000 + i as u64; let p = gen::bytes_from(seed, len);
        let s = kx::ident(i as u64, "golden-S"); let r = kx::ident(i as u64, "golden-R");
        let f = kx::key_encrypt_chunked(&p, lens, &s, &r.pk, &gen::key32(seed, "golden-e"), &gen::key32(seed, "golden-p")).unwrap();
        let name = format!("key-{:02}.ktl", i); std::fs::write(dir.join(&name), &f).unwrap();
        entries.push(GoldenEntry { file: name, mode: "key".into(), recipient_sk: kspec::hex(&r.sk), sender_pk: kspec::hex(&s.pk), password_hex: String::new(), plain_len: len, plain_seed: seed, plain_sha256: kspec::hex(&kspec::sha256(&p)), chunk_lens: lens.clone(), written_by: "pinned tree (kestrel-crypto 3.0.0), key_encrypt".into() });
    }
    let pws: [&[u8]; 6] = [b"", b"pass123", "pässwörd-ünïcode".as_bytes(), &[0xff, 0xfe, 0x00, 0x01], &[b'x'; 64], &[b'y'; 100]];
    for (i, lens) in shapes.iter().take(12).enumerate() {
        let len: usize = lens.iter().sum(); let seed = 2000 + i as u64; let p = gen::bytes_from(seed, len); let pw = pws[i % pws.len()];
        let (res, sh) = kx::pass_encrypt(&p, &RSched { gives: lens.clone(), then: 0 }, &WSched::all(), None, pw, gen::key32(seed, "golden-salt")); assert!(res.is_ok());
        let name = format!("pass-{:02}.ktl", i); std::fs::write(dir.join(&name), &*sh.sink.borrow()).unwrap();
        entries.push(GoldenEntry { file: name, mode: "pass".into(), recipient_sk: String::new(), sender_pk: String::new(), password_hex: kspec::hex(pw), plain_len: len, plain_seed: seed, plain_sha256: kspec::hex(&kspec::sha256(&p)), chunk_lens: lens.clone(), written_by: "pinned tree (kestrel-crypto 3.0.0), pass_encrypt".into() });
    }
    std::fs::write(dir.join("manifest.json"), serde_json::to_string_pretty(&entries).unwrap()).unwrap();
    println!("wrote {} golden files to {}", entries.len(), dir.display()); 0
}
/// The repository's own test files (written by an earlier 1.x release), decrypted with independently unlocked keys.
fn check_repo_golden(root: &std::path::Path) -> CheckResult {
    let dir = root.join("golden/repo");
    let kr = std::fs::read_to_string(dir.join("keyring.txt")).map_err(|e| e.to_string())?;
    let field = |sect: &str, key: &str| -> String { let mut on = false; for l in kr.lines() { if l.starts_with("Name") { on = l.ends_with(sect); } if on && l.starts_with(key) { return l.split_once('=').unwrap().1.trim().to_string(); } } String::new() };
    let bob_sk = kspec::unlock_private_key(&field("bob", "PrivateKey"), b"bob").ok_or("specification cannot unlock bob's key from the repository keyring")?;
    let alice_pk = kspec::decode_public_key(&field("alice", "PublicKey")).ok_or("alice's public key does not decode")?;
    let f = std::fs::read(dir.join("data.txt.ktl")).map_err(|e| e.to_string())?; let want = std::fs::read(dir.join("data.txt")).map_err(|e| e.to_string())?;
    let (res, sh) = kx::key_decrypt(&f, &RSched::dribble(7), &WSched::all(), None, &bob_sk, &kspec::x25519_base(&bob_sk));
    match res { DecRes::Ok(Some(s)) => { ensure!(*sh.sink.borrow() == want, "repository data.txt.ktl decrypts to different bytes"); ensure!(s == alice_pk, "repository data.txt.ktl: sender is not alice"); } other => return Err(format!("repository data.txt.ktl no longer decrypts: {:?}", other)) }
    let f = std::fs::read(dir.join("pdata.txt.ktl")).map_err(|e| e.to_string())?;
    let (res, sh) = kx::pass_decrypt(&f, &RSched::full(), &WSched::all(), None, b"pass123");
    ensure!(res.is_ok(), "repository pdata.txt.ktl no longer decrypts: {:?}", res);
    ensure!(*sh.sink.borrow() == want, "repository pdata.txt.ktl decrypts to different bytes");
    ok(true, "golden/repo-1.x")
}

pub fn run(ctx: &Ctx) {
    set_rule("C06", "differential against the independent executable specification (kspec): (sender, recipient, ephemeral key, payload key, plaintext, read schedule) and (password, salt, plaintext, read schedule) -> byte equality of the real encryptor's output with the specification's file for the chunking induced by the reads; reverse direction: specification-written conforming files with arbitrary legal chunkings (any chunk 1..65536, incl. full-after-short) must decrypt to plaintext and sender; golden corpus (25 files written by the pinned tree + the repository's 1.x test files); Noise-AEAD nonce layout via the hook for counters across the 64-bit range. Non-trivial = >= 2 chunks or a chunk that is neither full nor last (nonce cases: counter > 255); distinct by hash of the case");
    ctx.assume("kspec is the reference for 'documented format'; it is validated against RFC 8439/7748/5869/4231/7914 vectors, the Noise vector pinned by the repository, and OpenSSL (tools/oracle_audit.py) - a kspec bug would show as a disagreement on the unchanged tree");
    let max = if ctx.quick() { 300_000 } else { 2 << 20 };
    ctx.pbt("key_encrypt_vs_spec", ctx.n(20_000, 300_000), || (gen::plain_strategy(max), any::<u64>(), any::<u64>(), any::<u64>(), any::<u64>()).prop_flat_map(|(plain, s, r, e, p)| { let l = plain.len; (Just(plain), Just(s), Just(r), Just(e), Just(p), gen::rsched_for(l)) }).prop_map(|(plain, s, r, e, p, prs)| KeyDiff { plain, s, r, e, p, prs, noncanon_recipient: e % 5 == 0 }), check_key);
    ctx.pbt("pass_encrypt_vs_spec", ctx.n(200, 4_000), || (prop_oneof![5 => gen::small_plain(400), 1 => gen::plain_strategy(200_000)], gen::password_strategy(), any::<u64>()).prop_flat_map(|(plain, w, salt)| { let l = plain.len; (Just(plain), Just(w), Just(salt), gen::rsched_for(l)) }).prop_map(|(plain, w, salt, prs)| PassDiff { plain, w, salt, prs }), check_pass);
    let sf = |pass: bool, max: usize| (gen::plain_strategy(max), any::<u64>(), any::<u64>(), any::<u64>(), any::<u64>(), proptest::collection::vec(prop_oneof![1usize..300, Just(CS), Just(CS - 1), 1usize..=CS], 0..6), prop_oneof![Just(CS), 1usize..=CS, 1usize..50], gen::password_strategy(), gen::rsched_coarse())
        .prop_map(move |(plain, s, r, e, p, head, tail, w, crs)| { let tail = if plain.len / tail.max(1) > 400 { CS } else { tail }; SpecFile { plain, s, r, e, p, head, tail, pass: if pass { Some(w) } else { None }, crs, noncanon: if pass { 0 } else { match e % 7 { 0 => 1, 1 => 2, _ => 0 } } } });
    ctx.pbt("spec_files_key", ctx.n(20_000, 300_000), || sf(false, max), check_spec_file);
    ctx.pbt("spec_files_pass", ctx.n(150, 3_000), || sf(true, 70_000), check_spec_file);
    let specials: Vec<u64> = vec![0, 1, 2, 255, 256, 65535, 65536, (1 << 32) - 1, 1 << 32, (1 << 32) + 1, 1 << 40, 1 << 63, (1 << 63) + 1, u64::MAX - 1, u64::MAX - 2, 0x0102030405060708, 0xfffefdfcfbfaf9f8];
    let cases: Vec<NonceCase> = specials.iter().flat_map(|&n| (0..6usize).map(move |i| NonceCase { key: n ^ i as u64, counter: n, ad_len: [0, 1, 8, 12, 32, 40][i], msg_len: [0, 1, 16, 63, 64, 200][i] })).collect();
    ctx.sse_vec("noise_aead_nonce_special", "17 special counters x 6 (ad, msg) shapes", cases, check_nonce);
    ctx.pbt("noise_aead_nonce_random", ctx.n(20_000, 500_000), || (any::<u64>(), prop_oneof![any::<u64>().prop_map(|x| x.min(u64::MAX - 1)), 0u64..70000, (0u32..64).prop_map(|b| 1u64 << b)], 0usize..48, 0usize..300).prop_map(|(key, counter, ad_len, msg_len)| NonceCase { key, counter, ad_len, msg_len }), check_nonce);
    let golden = load_golden(&ctx.root);
    if golden.is_empty() { ctx.note("golden corpus missing: golden/manifest.json not found"); }
    let root = ctx.root.clone();
    ctx.sse("golden_corpus", "every file of /verif/golden (written by the pinned tree)", golden.len(), |i| Golden { idx: i }, |g: &Golden| check_golden_entry(&root, &golden[g.idx]));
    let root2 = ctx.root.clone();
    ctx.sse("golden_repo_files", "the repository's own data.txt.ktl / pdata.txt.ktl with keys unlocked by the specification", 1, |i| Golden { idx: i }, move |_| check_repo_golden(&root2));
}
