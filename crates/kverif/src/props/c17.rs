//! C17 — keyring parsing: complete, unambiguous entries; checksummed keys; no crashes.
use crate::core::{ok, set_rule, CheckResult, Ctx};
use crate::ensure;
use crate::gen;
use crate::keyring::{EncodedPk, EncodedSk, Keyring};
use kestrel_crypto::PublicKey;
use proptest::prelude::*;
use serde::{Deserialize, Serialize};
use std::sync::OnceLock;

pub struct Vals { pub pk: [String; 2], pub pk35: String, pub sk: [String; 2], pub name129: String }
pub fn vals() -> &'static Vals {
    static V: OnceLock<Vals> = OnceLock::new();
    V.get_or_init(|| {
        let p1 = kspec::x25519_base(&[1u8; 32]); let p2 = kspec::x25519_base(&[2u8; 32]);
        Vals { pk: [kspec::encode_public_key(&p1), kspec::encode_public_key(&p2)], pk35: kspec::base64(&[5u8; 35]) ,
               sk: [kspec::lock_private_key_with(&[7u8; 32], &[1u8; 32], &[3u8; 32]), kspec::lock_private_key_with(&[8u8; 32], &[2u8; 32], &[4u8; 32])], name129: "n".repeat(129) }
    })
}

// ---- (1) flat token sequences
pub const NTOK: usize = 15;
#[derive(Clone, Copy, Debug, PartialEq)]
pub enum Tok { Key, Name(u8), Pk(u8), Sk(u8), Comment, Blank, Junk }
pub fn tok(i: usize) -> Tok { match i { 0 => Tok::Key, 1..=5 => Tok::Name(i as u8 - 1), 6..=9 => Tok::Pk(i as u8 - 6), 10..=11 => Tok::Sk(i as u8 - 10), 12 => Tok::Comment, 13 => Tok::Blank, _ => Tok::Junk } }
fn name_val(k: u8) -> String { match k { 0 => "a".into(), 1 => "b".into(), 2 => vals().name129.clone(), 3 => String::new(), _ => "A".into() } }
fn swapcase(s: &str) -> String { s.chars().map(|c| if c.is_ascii_lowercase() { c.to_ascii_uppercase() } else { c.to_ascii_lowercase() }).collect() }
fn pk_val(k: u8) -> String { match k { 0 => vals().pk[0].clone(), 1 => vals().pk[1].clone(), 2 => vals().pk35.clone(), _ => "junk".into() } }
fn sk_val(k: u8) -> String { match k { 0 => vals().sk[0].clone(), _ => "junk".into() } }
/// Whitespace only in structural positions (indentation, around '='), never inside values.
pub fn render(toks: &[Tok], variant: u8) -> String {
    let (ind, eq, nl) = match variant % 4 { 0 => ("", " = ", "\n"), 1 => ("\t", "\t=\t", "\n"), 2 => ("  ", "=", "\r\n"), _ => ("", " =", "\n") };
    let mut s = String::new();
    for t in toks {
        match t {
            Tok::Key => { s.push_str(ind); s.push_str("[Key]"); }
            Tok::Name(k) => { s.push_str(ind); s.push_str("Name"); s.push_str(eq); s.push_str(&name_val(*k)); }
            Tok::Pk(k) => { s.push_str(ind); s.push_str("PublicKey"); s.push_str(eq); s.push_str(&pk_val(*k)); }
            Tok::Sk(k) => { s.push_str(ind); s.push_str("PrivateKey"); s.push_str(eq); s.push_str(&sk_val(*k)); }
            Tok::Comment => { s.push_str(ind); s.push_str("# a comment"); }
            Tok::Blank => s.push_str(ind),
            Tok::Junk => { s.push_str(ind); s.push_str("hello world"); }
        }
        s.push_str(nl);
    }
    s
}
#[derive(Clone, Debug, PartialEq, Default)]
pub struct Section { pub names: Vec<String>, pub pks: Vec<String>, pub sks: Vec<String> }
/// The by-construction structure: sections are what follows each [Key] token.
pub fn sections(toks: &[Tok]) -> (Vec<Section>, bool) {
    let mut v: Vec<Section> = Vec::new(); let mut outside = false;
    for t in toks { match t {
        Tok::Key => v.push(Section::default()),
        Tok::Name(k) => match v.last_mut() { Some(s) => s.names.push(name_val(*k)), None => outside = true },
        Tok::Pk(k) => match v.last_mut() { Some(s) => s.pks.push(pk_val(*k)), None => outside = true },
        Tok::Sk(k) => match v.last_mut() { Some(s) => s.sks.push(sk_val(*k)), None => outside = true },
        _ => {} } }
    (v, outside)
}
fn pk_ok(s: &str) -> bool { kspec::base64_decode(s).map(|b| b.len() == 36).unwrap_or(false) }
fn sk_ok(s: &str) -> bool { kspec::base64_decode(s).map(|b| b.len() == 84).unwrap_or(false) }
/// The statement's acceptance conditions over the by-construction structure.
pub fn structure_valid(secs: &[Section]) -> Result<(), String> {
    for (i, s) in secs.iter().enumerate() {
        if s.names.len() != 1 { return Err(format!("section {} has {} Name lines", i, s.names.len())); }
        if s.names[0].is_empty() || s.names[0].len() > 128 { return Err(format!("section {} has a name of {} bytes", i, s.names[0].len())); }
        if s.pks.len() != 1 { return Err(format!("section {} has {} PublicKey lines", i, s.pks.len())); }
        if !pk_ok(&s.pks[0]) { return Err(format!("section {} has a malformed public key", i)); }
        if s.sks.len() > 1 { return Err(format!("section {} has {} PrivateKey lines", i, s.sks.len())); }
        if let Some(k) = s.sks.first() { if !sk_ok(k) { return Err(format!("section {} has a malformed private key", i)); } }
        for (j, t) in secs[..i].iter().enumerate() {
            if t.names.first() == s.names.first() { return Err(format!("sections {} and {} have the same name", j, i)); }
            if t.pks.first() == s.pks.first() { return Err(format!("sections {} and {} have the same public key", j, i)); }
        }
    }
    Ok(())
}
/// Ok(keyring) => structure valid and entries = sections (checked through the lookups the CLI uses).
pub fn judge(text: &str, secs: &[Section]) -> Result<(bool, bool), String> {
    let model = structure_valid(secs);
    match Keyring::new(text) {
        Err(_) => Ok((false, model.is_ok())),
        Ok(kr) => {
            if let Err(why) = model { return Err(format!("keyring ACCEPTED although {}", why)); }
            for s in secs {
                let k = kr.get_key(&s.names[0]).ok_or_else(|| format!("accepted keyring has no entry for section name {:?}", s.names[0]))?;
                ensure!(k.name == s.names[0] && k.public_key.as_str() == s.pks[0], "lookup by name {:?} returns a different section's key", s.names[0]);
                ensure!(k.private_key.as_ref().map(|x| x.as_str().to_string()) == s.sks.first().cloned(), "entry {:?}: private key differs from the section's", s.names[0]);
                let epk = EncodedPk::try_from(s.pks[0].as_str()).map_err(|e| e.to_string())?;
                ensure!(kr.get_name_from_key(&epk).as_deref() == Some(s.names[0].as_str()), "lookup by public key returns {:?}, section name is {:?}", kr.get_name_from_key(&epk), s.names[0]);
            }
            // lookups are exact: a name or key that differs only in letter case is another name / another key
            for s in secs {
                let sw = swapcase(&s.names[0]); if sw != s.names[0] && !secs.iter().any(|t| t.names[0] == sw) { ensure!(kr.get_key(&sw).is_none(), "lookup of {:?} answers with the entry {:?}", sw, s.names[0]); }
                let sp = swapcase(&s.pks[0]); if sp != s.pks[0] && !secs.iter().any(|t| t.pks[0] == sp) { if let Ok(e) = EncodedPk::try_from(sp.as_str()) { ensure!(kr.get_name_from_key(&e).is_none(), "lookup by a public key that differs in letter case answers {:?}", kr.get_name_from_key(&e)); } }
            }
            for probe in ["a", "b", "A", "zz"] { if !secs.iter().any(|s| s.names[0] == probe) { ensure!(kr.get_key(probe).is_none(), "accepted keyring has an entry {:?} that no section defines", probe); } }
            for p in &vals().pk { if !secs.iter().any(|s| &s.pks[0] == p) { ensure!(kr.get_name_from_key(&EncodedPk::try_from(p.as_str()).unwrap()).is_none(), "accepted keyring maps a public key that no section defines"); } }
            Ok((true, true))
        }
    }
}

#[derive(Clone, Debug, Serialize, Deserialize)]
pub struct SeqCase { pub toks: Vec<usize>, pub variant: u8 }
pub fn check_seq(c: &SeqCase) -> CheckResult {
    let toks: Vec<Tok> = c.toks.iter().map(|&i| tok(i % NTOK)).collect();
    let text = render(&toks, c.variant);
    let (secs, _outside) = sections(&toks);
    let (accepted, model_ok) = judge(&text, &secs)?;
    let nt = toks.contains(&Tok::Key) && toks.iter().any(|t| matches!(t, Tok::Name(_) | Tok::Pk(_) | Tok::Sk(_)));
    ok(nt, if accepted { "accepted" } else if model_ok { "rejected(model-valid: leniency not required)" } else { "rejected" })
}
pub fn seq_from_index(mut i: usize) -> SeqCase {
    // index -> (variant, length, digits): enumerates every sequence of length 0..=L for each of 4 variants
    let variant = (i % 4) as u8; i /= 4;
    let mut len = 0; let mut block = 1usize;
    while i >= block { i -= block; len += 1; block *= NTOK; }
    let mut toks = Vec::with_capacity(len); for _ in 0..len { toks.push(i % NTOK); i /= NTOK; }
    SeqCase { toks, variant }
}
pub fn seq_space(maxlen: u32) -> usize { (0..=maxlen).map(|l| NTOK.pow(l)).sum::<usize>() * 4 }

// ---- (1b) sequences of sections
pub const NSHAPE: usize = 13;
fn shape(i: usize) -> Vec<Tok> {
    match i { 0 => vec![Tok::Key, Tok::Name(0), Tok::Pk(0)], 1 => vec![Tok::Key, Tok::Name(0), Tok::Pk(1)], 2 => vec![Tok::Key, Tok::Name(1), Tok::Pk(0)], 3 => vec![Tok::Key, Tok::Name(1), Tok::Pk(1)],
        4 => vec![Tok::Key, Tok::Name(1), Tok::Pk(1), Tok::Sk(0)], 5 => vec![Tok::Key, Tok::Sk(0), Tok::Pk(0), Tok::Comment, Tok::Name(0)], 6 => vec![Tok::Key, Tok::Pk(0)], 7 => vec![Tok::Key, Tok::Name(0)],
        8 => vec![Tok::Key, Tok::Name(0), Tok::Name(1), Tok::Pk(0)], 9 => vec![Tok::Key, Tok::Name(0), Tok::Pk(0), Tok::Pk(1)], 10 => vec![Tok::Key, Tok::Name(0), Tok::Pk(0), Tok::Sk(1)], 11 => vec![Tok::Key, Tok::Name(4), Tok::Pk(1)], _ => vec![Tok::Key] }
}
#[derive(Clone, Debug, Serialize, Deserialize)]
pub struct SecCase { pub shapes: Vec<usize>, pub variant: u8 }
pub fn check_sec(c: &SecCase) -> CheckResult {
    let toks: Vec<Tok> = c.shapes.iter().flat_map(|&s| { let mut t = shape(s % NSHAPE); t.push(Tok::Blank); t }).collect();
    let text = render(&toks, c.variant); let (secs, _) = sections(&toks);
    let (accepted, model_ok) = judge(&text, &secs)?;
    ok(c.shapes.len() >= 2, if accepted { "accepted" } else if model_ok { "rejected(model-valid)" } else { "rejected" })
}
pub fn sec_from_index(mut i: usize) -> SecCase {
    let variant = (i % 4) as u8; i /= 4; let mut len = 0; let mut block = 1usize;
    while i >= block { i -= block; len += 1; block *= NSHAPE; }
    let mut shapes = Vec::new(); for _ in 0..len { shapes.push(i % NSHAPE); i /= NSHAPE; }
    SecCase { shapes, variant }
}

// ---- (2) keyrings the tool writes
#[derive(Clone, Debug, Serialize, Deserialize)]
pub struct Written { pub names: Vec<String>, pub seed: u64, pub leading_newline: bool }
pub static NAMES_REFUSED: std::sync::atomic::AtomicU64 = std::sync::atomic::AtomicU64::new(0);
pub fn check_written(c: &Written) -> CheckResult {
    // names as `key generate` would take them: the line read from the user, trimmed, accepted by the tool's own validity test
    let mut names: Vec<String> = Vec::new();
    for n in &c.names { let t = n.trim().to_string(); if t.contains('\n') { continue; } if !Keyring::valid_key_name(&t) { NAMES_REFUSED.fetch_add(1, std::sync::atomic::Ordering::Relaxed); continue; } if !names.contains(&t) { names.push(t); } }
    if names.is_empty() { return ok(false, "no-acceptable-name"); }
    // one keyring in three also holds, BEFORE the name it extends, a longer name with that name as its beginning
    if c.seed % 3 == 0 { let longer = format!("{}x", names[0]); if Keyring::valid_key_name(&longer) && !names.contains(&longer) { names.insert(0, longer); } }
    let mut text = String::new(); let mut written = Vec::new();
    // one keyring in four starts with a hand-made entry whose key text is the first key with its checksum characters
    // mistyped: the parser takes such entries, but the key in it is not usable and must never answer a lookup by key
    let typo: Option<String> = if c.seed % 4 == 1 { let sk = gen::key32(c.seed, "c17-sk"); let good = kspec::encode_public_key(&kspec::x25519_base(&sk)); let mut cs: Vec<char> = good.chars().collect(); let i = 43 + (c.seed as usize / 4) % 4; cs[i] = if cs[i] == 'A' { 'B' } else { 'A' }; Some(cs.into_iter().collect()) } else { None };
    if let Some(t) = &typo { if !names.iter().any(|n| n == "mistyped entry") { text.push_str(&format!("[Key]\nName = mistyped entry\nPublicKey = {}\n\n", t)); } }
    for (i, n) in names.iter().enumerate() {
        let sk = gen::key32(c.seed.wrapping_add(i as u64), "c17-sk"); let pk = kspec::x25519_base(&sk);
        let epk = Keyring::encode_public_key(&PublicKey::try_from(&pk[..]).unwrap());
        let esk = EncodedSk::try_from(kspec::lock_private_key_with(&gen::key32(i as u64, "k"), &sk, &gen::key32(i as u64, "s")).as_str()).map_err(|e| e.to_string())?;
        let entry = Keyring::serialize_key(n, &epk, &esk);
        // `key generate -o F` starts additional keys with a newline
        if i > 0 || c.leading_newline { text.push('\n'); }
        text.push_str(&entry); written.push((n.clone(), epk.as_str().to_string(), esk.as_str().to_string(), pk));
    }
    let kr = Keyring::new(&text).map_err(|e| format!("a keyring in the shape the tool writes was rejected: {} (names {:?})", e, names))?;
    for (n, epk, esk, pk) in &written {
        let k = kr.get_key(n).ok_or_else(|| format!("name {:?} was written but is not found after parsing", n))?;
        ensure!(&k.name == n && k.public_key.as_str() == epk && k.private_key.as_ref().map(|s| s.as_str()) == Some(esk.as_str()), "entry {:?} reads back with different fields", n);
        ensure!(kr.get_name_from_key(&EncodedPk::try_from(epk.as_str()).unwrap()).as_deref() == Some(n.as_str()), "public key of {:?} maps to {:?} after parsing", n, kr.get_name_from_key(&EncodedPk::try_from(epk.as_str()).unwrap()));
        // a proper beginning of a name is not that name
        let cut: String = n.chars().take((n.chars().count() + 1) / 2).collect(); if cut != *n && !cut.is_empty() && cut.trim() == cut && !written.iter().any(|w| w.0 == cut) { ensure!(kr.get_key(&cut).is_none(), "lookup of {:?} (the beginning of a name) answers with the entry written as {:?}", cut, kr.get_key(&cut).map(|k| k.name.clone())); }
        let sw = swapcase(n); if &sw != n && !written.iter().any(|w| w.0 == sw) { ensure!(kr.get_key(&sw).is_none(), "lookup of {:?} answers with the entry written as {:?}", sw, n); }
        let dec = Keyring::decode_public_key(&k.public_key).map_err(|e| format!("written public key does not decode: {}", e))?;
        ensure!(dec.as_bytes() == pk, "decoded public key differs from the key written");
    }
    let special = names.iter().any(|n| n.chars().any(|ch| !ch.is_ascii_alphanumeric()));
    ok(names.len() >= 2 || special, format!("written/{}{}", names.len().min(4), if special { "+special-chars" } else { "" }))
}
pub fn name_strategy() -> BoxedStrategy<String> {
    prop_oneof![
        3 => "[a-zA-Z0-9_.@-]{1,20}",
        3 => "[ -~]{1,40}",
        2 => "\\PC{1,30}",
        2 => "[a-z =#\\[\\]\t]{1,12}",
        1 => "(Name|PublicKey|PrivateKey|\\[Key\\]|#)[ =a-z]{0,8}",
        1 => "[a-zé\u{00a0}\u{2003}\u{0085}\u{000b}\u{000c}\r\t]{1,10}",
        1 => "[a-z]{120,135}",
        1 => "é{60,70}",
    ].boxed()
}

// ---- (4) public key encodings
#[derive(Clone, Debug, Serialize, Deserialize)]
pub enum PkCase { Blob { seed: u64, len: usize, good_checksum: bool }, Replace { seed: u64, pos: usize, ch: char }, Str { s: String } }
pub fn check_pk(c: &PkCase) -> CheckResult {
    let s = match c {
        PkCase::Blob { seed, len, good_checksum } => { let mut b = gen::bytes_from(*seed, *len); if *good_checksum && *len == 36 { let h = kspec::sha256(&b[..32]); b[32..].copy_from_slice(&h[..4]); } kspec::base64(&b) }
        PkCase::Replace { seed, pos, ch } => { let pk = gen::key32(*seed, "pk"); let mut cs: Vec<char> = kspec::encode_public_key(&pk).chars().collect(); let n = cs.len(); cs[pos % n] = *ch; cs.into_iter().collect() }
        PkCase::Str { s } => s.clone(),
    };
    let want = kspec::decode_public_key(&s);
    let got = match EncodedPk::try_from(s.as_str()) { Err(_) => None, Ok(e) => Keyring::decode_public_key(&e).ok().map(|p| { let a: [u8; 32] = p.as_bytes().try_into().unwrap(); a }) };
    if got != want { return Err(format!("public key string {:?}: tool {} it, but strict base64 of 32 bytes + SHA-256 checksum says {}", s, if got.is_some() { "ACCEPTS" } else { "rejects" }, if want.is_some() { "valid" } else { "invalid" })); }
    ok(true, format!("pk/{}", if want.is_some() { "valid" } else { "invalid" }))
}

#[derive(Clone, Debug, Serialize, Deserialize)]
pub struct TextCase { pub text: String }
pub fn check_text(c: &TextCase) -> CheckResult {
    // no input text makes the parser crash (panics are caught by the engine); accepted texts answer lookups consistently
    let r = Keyring::new(&c.text);
    if let Ok(kr) = &r { for l in c.text.lines() { if let Some(n) = l.strip_prefix("Name = ") { if let Some(k) = kr.get_key(n) { ensure!(k.name == n && !n.is_empty() && n.len() <= 128, "accepted keyring holds the name {:?} ({} bytes)", n, n.len()); } } } }
    if let Ok(kr) = &r { if let Some(k) = kr.get_key("a") { ensure!(k.name == "a" && !k.public_key.as_str().is_empty(), "lookup returned an entry with another name"); } }
    ok(c.text.contains("[Key]"), if r.is_ok() { "accepted" } else { "rejected" })
}

/// A single well-formed section whose name is `bytes` bytes long, built from a multi-byte character plus ASCII fill:
/// accepted exactly when 1 <= bytes <= 128 (the limit is in bytes, whatever the characters are).
#[derive(Clone, Debug, Serialize, Deserialize)]
pub struct NameLen { pub ch: char, pub bytes: usize, pub fill_first: bool }
pub fn check_name_len(c: &NameLen) -> CheckResult {
    let w = c.ch.len_utf8(); let k = c.bytes / w; let fill = c.bytes - k * w;
    let name = if c.fill_first { format!("{}{}", "x".repeat(fill), c.ch.to_string().repeat(k)) } else { format!("{}{}", c.ch.to_string().repeat(k), "x".repeat(fill)) };
    if name.len() != c.bytes || name.trim() != name { return ok(false, "skipped"); }
    let text = format!("[Key]\nName = {}\nPublicKey = {}\n", name, vals().pk[0]);
    let want = c.bytes >= 1 && c.bytes <= 128;
    let got = Keyring::new(&text);
    ensure!(got.is_ok() == want, "a keyring whose only name is {} bytes ({} characters of {:?} and ASCII) was {}; names of 1 to 128 bytes are the accepted ones", c.bytes, name.chars().count(), c.ch, if got.is_ok() { "accepted" } else { "rejected" });
    ensure!(Keyring::valid_key_name(&name) == want, "valid_key_name (used by `key generate`) says {} for a name of {} bytes ({} characters)", !want, c.bytes, name.chars().count());
    if let Ok(kr) = got { ensure!(kr.get_key(&name).map(|k| k.name == name).unwrap_or(false), "accepted name not found"); }
    ok(c.bytes > 100 && w > 1, format!("name-bytes/{}", if want { "within" } else { "beyond" }))
}

pub fn run(ctx: &Ctx) {
    set_rule("C17", "(1) every sequence of length <= L over 15 line tokens ([Key]; Name = a|b|A|129 bytes|empty; PublicKey = pk1|pk2|35-byte|junk; PrivateKey = sk|junk; comment; blank; junk) in 4 spacing/tab/CRLF renderings - the generator is the structure, so the sectioning is known by construction; (1b) every sequence of <= M sections over 12 section shapes; (2) keyrings in the shape the tool writes, with names from the domain key generation accepts (any Unicode without line breaks, trimmed, filtered by the tool's own validity test); (3) random texts; (4) 36-byte blobs with good/bad checksum, other lengths, every single-character replacement class. Oracle: accepted => structure valid per the statement and lookups by name / key return exactly the sections; tool-written keyrings read back; decode_public_key Ok <=> strict base64 of 32 bytes + SHA-256[..4]. Non-trivial = text with >= 1 [Key] line and >= 1 field line (public-key cases: all); distinct by enumeration index / hash of the case");
    ctx.assume("leniency for hand-written files (tabs inside values, extra junk) is not an obligation: a structure the model calls valid but the parser rejects is only counted");
    let l = if ctx.quick() { 5 } else { 6 };
    ctx.sse("token_sequences", &format!("all sequences of <= {} tokens over 15 tokens x 4 renderings", l), seq_space(l), seq_from_index, check_seq);
    let m = if ctx.quick() { 4 } else { 5 };
    ctx.sse("section_sequences", &format!("all sequences of <= {} sections over 13 shapes x 4 renderings", m), (0..=m).map(|k| NSHAPE.pow(k)).sum::<usize>() * 4, sec_from_index, check_sec);
    ctx.pbt("tool_written_keyrings", ctx.n(200_000, 1_500_000), || (proptest::collection::vec(name_strategy(), 1..6), any::<u64>(), any::<bool>()).prop_map(|(names, seed, leading_newline)| Written { names, seed, leading_newline }), check_written);
    // every code point below U+3100 at start, middle and end of a name
    ctx.sse("name_code_points", "every code point < U+3100 placed at the start, middle and end of a name", 0x3100 * 3, |i| { let ch = char::from_u32((i / 3) as u32).unwrap_or('x'); let n = match i % 3 { 0 => format!("{}ab", ch), 1 => format!("a{}b", ch), _ => format!("ab{}", ch) }; Written { names: vec![n, "other".into()], seed: 9, leading_newline: false } }, check_written);
    { let mut v = Vec::new(); for ch in ['a', 'é', 'ß', '€', '한', '😀'] { for bytes in (1..=8).chain(60..=70).chain(120..=140).chain([192, 256, 257, 384, 512]) { for fill_first in [false, true] { v.push(NameLen { ch, bytes, fill_first }); } } }
      ctx.sse_vec("name_length_in_bytes", "one well-formed section whose name is 1..8, 60..70, 120..140, 192..512 bytes of 1-, 2-, 3- and 4-byte characters: accepted exactly up to 128 BYTES, by the parser and by the name test of `key generate`", v, check_name_len); }
    // error paths that mention a name: duplicates and over-long names made of multi-byte characters at every byte alignment
    let mut uni = Vec::new();
    for ch in ['é', '€', '😀', 'a'] { for k in 0..4usize { for n in 1..=70usize { let name = format!("{}{}", "x".repeat(k), ch.to_string().repeat(n)); if name.len() > 150 { break; }
        uni.push(TextCase { text: format!("[Key]\nName = {}\nPublicKey = {}\n\n[Key]\nName = {}\nPublicKey = {}\n", name, vals().pk[0], name, vals().pk[1]) });
        uni.push(TextCase { text: format!("[Key]\nName = {}\nPublicKey = {}\n[Key]\nName = other\nPublicKey = {}\n", name, vals().pk[0], vals().pk[0]) });
        uni.push(TextCase { text: format!("[Key]\nName = {}\nName = {}\nPublicKey = {}\n", name, name, vals().pk[0]) }); } } }
    ctx.sse_vec("unicode_names_in_error_paths", "names x^k + c^n for c in {2,3,4-byte, ASCII}, k 0..3, byte length up to 150: duplicated across sections, with a duplicate public key, duplicated inside a section", uni, check_text);
    // "every keyring the tool itself writes parses back": the real `key generate -o` on files with and without a final newline (shared with C14)
    { use super::c14::{History, Initial};
      let hs: Vec<History> = [(true, true), (false, false), (false, true), (true, false)].iter().enumerate().map(|(i, &(trailing_newline, with_private))| History { initial: Initial::Keyring { entries: 1 + i % 2, trailing_newline, comments: i % 2 == 0, with_private }, gens: vec![(format!("written-{}", i), "pw".into()), ("second key".into(), "".into())], seed: ctx.seed + i as u64, use_keys: i == 0, quota_before: None, stale_new_password: false, via_symlink: i == 3 }).collect();
      ctx.sse_vec("cli_written_keyrings_parse_back", "`key generate -o F` twice into keyrings with/without final newline, comments, private keys", hs, super::c14::check); }
    // very long runs of ignorable lines (a parser that recurses per skipped line runs out of stack)
    let big: Vec<TextCase> = [10_000usize, 200_000, 3_000_000].iter().flat_map(|&n| [TextCase { text: format!("{}[Key]\nName = a\nPublicKey = {}\n", "\n".repeat(n), vals().pk[0]) }, TextCase { text: format!("[Key]\nName = a\n{}PublicKey = {}\n{}", "# c\n".repeat(n), vals().pk[0], " \n".repeat(n / 2)) }]).collect();
    ctx.sse_vec("many_ignorable_lines", "10^4 .. 3*10^6 consecutive blank / comment lines around a valid entry: accepted, entry found", big, |t: &TextCase| { let kr = Keyring::new(&t.text).map_err(|e| format!("a keyring with many blank or comment lines was rejected: {}", e))?; ensure!(kr.get_key("a").is_some(), "entry lost"); ok(true, "many-lines") });
    ctx.pbt("random_texts", ctx.n(30_000, 800_000), || prop_oneof!["\\PC{0,200}", "(\\[Key\\]|Name|PublicKey|PrivateKey|=| |\t|\n|\r\n|#|[a-zA-Z0-9+/]{1,48}){0,40}"].prop_map(|text| TextCase { text }), check_text);
    let mut pk = Vec::new();
    for len in 0..=60usize { for g in [false, true] { pk.push(PkCase::Blob { seed: ctx.seed ^ len as u64, len, good_checksum: g }); } }
    for pos in 0..48 { for ch in ['A', 'z', '0', '+', '/', '=', '-', '_', ' ', '\t', 'é', '\n'] { pk.push(PkCase::Replace { seed: ctx.seed, pos, ch }); } }
    for k in 0..60u8 { let mut raw = [k; 32]; raw[3] = 0xfb; raw[7] = 0xff; let g = kspec::encode_public_key(&raw); if g.contains('+') || g.contains('/') { pk.push(PkCase::Str { s: g.replace('+', "-").replace('/', "_") }); pk.push(PkCase::Str { s: g.replace('/', "_") }); } }
    let good = kspec::encode_public_key(&[9u8; 32]);
    for s in [format!("{}=", good), format!("{}==", good), format!(" {}", good), format!("{} ", good), format!("{}\n", good), format!("{}AAAA", good), good[..47].to_string(), good.clone(), String::new()] { pk.push(PkCase::Str { s }); }
    ctx.sse_vec("public_key_strings", "blob lengths 0..=60 x checksum good/bad; 48 positions x 12 replacement characters; padding/whitespace/extension variants", pk, check_pk);
    ctx.pbt("public_key_random", ctx.n(30_000, 800_000), || prop_oneof![(any::<u64>(), prop_oneof![Just(36usize), 30usize..40], any::<bool>()).prop_map(|(seed, len, good_checksum)| PkCase::Blob { seed, len, good_checksum }), (any::<u64>(), 0usize..48, any::<char>()).prop_map(|(seed, pos, ch)| PkCase::Replace { seed, pos, ch }), "[A-Za-z0-9+/=]{44,52}".prop_map(|s| PkCase::Str { s })], check_pk);
    ctx.put("names_refused_by_tool", serde_json::json!(NAMES_REFUSED.load(std::sync::atomic::Ordering::Relaxed)));
}
