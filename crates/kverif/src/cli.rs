//! CLI driver: runs the `kestrel` binary built from the working tree (crates/cli_wt) as a process with
//! explicit argv, scrubbed environment, no controlling terminal, private temp directory, timeout.
use crate::keyring::{EncodedSk, Keyring};
use kestrel_crypto::{PrivateKey, PublicKey};
use std::ffi::OsString;
use std::os::unix::process::ExitStatusExt;
use std::path::{Path, PathBuf};
use std::process::{Command, Stdio};
use std::sync::atomic::{AtomicU64, Ordering};

/// Scratch space for per-case directories: a memory-backed file system when there is one (creating and
/// removing thousands of small files per second on a journalling file system serialises the workers).
pub fn scratch_root() -> PathBuf {
    if let Ok(p) = std::env::var("KVERIF_TMP") { return PathBuf::from(p); }
    let shm = Path::new("/dev/shm");
    if shm.is_dir() && std::fs::metadata(shm).map(|m| !m.permissions().readonly()).unwrap_or(false) { shm.to_path_buf() } else { std::env::temp_dir() }
}
const SETSID: &str = "/usr/bin/setsid";
pub fn kestrel_bin() -> PathBuf { PathBuf::from(std::env::var("KESTREL_BIN").unwrap_or_else(|_| "/verif/target/release/kestrel".into())) }

#[derive(Clone, Debug)]
pub enum In { Null, Bytes(Vec<u8>), File(PathBuf), Closed, /// a real pipe, written in pieces of the given sizes (short reads on the other side)
    Pipe(Vec<u8>, Vec<usize>) }
#[derive(Clone, Debug, PartialEq)]
pub enum Out { Capture, File(PathBuf), DevFull, ClosedPipe, Null, /// a real pipe drained by a reader thread (stdout is then not a regular file)
    PipeCapture }
#[derive(Clone, Debug)]
pub struct Cmd { pub args: Vec<OsString>, pub env: Vec<(String, String)>, pub stdin: In, pub stdout: Out, pub cwd: PathBuf, pub timeout_ms: u64,
    /// largest file the process may write, in 512-byte blocks (a write beyond it fails with EFBIG): a full disk / quota in miniature
    pub fsize_blocks: Option<u64>,
    /// environment variables whose values are arbitrary bytes (not necessarily UTF-8)
    pub env_os: Vec<(String, Vec<u8>)>,
    /// named pipes to create in the working directory before the start, each fed with data in pieces (name, data, piece sizes)
    pub fifos: Vec<(String, Vec<u8>, Vec<usize>)>,
    /// run the tool on a pseudo-terminal (through script(1)) and type these lines at its prompts; stdout and stderr of the tool
    /// then both go to the terminal and are returned together in `stdout`
    pub pty_lines: Option<Vec<String>>,
    /// named pipes created in the working directory and drained by a reader for as long as the tool runs; what arrived is returned in `Run::fifo_out`
    pub out_fifos: Vec<String> }
#[derive(Clone, Debug)]
pub struct Run { pub code: Option<i32>, pub signal: Option<i32>, pub stdout: Vec<u8>, pub stderr: Vec<u8>, pub timed_out: bool, pub fifo_out: Vec<Vec<u8>> }
impl Run {
    pub fn stderr_s(&self) -> String { String::from_utf8_lossy(&self.stderr).into_owned() }
    pub fn stdout_s(&self) -> String { String::from_utf8_lossy(&self.stdout).into_owned() }
    pub fn describe(&self) -> String { format!("exit {:?} signal {:?}{} stderr {:?}", self.code, self.signal, if self.timed_out { " TIMED OUT" } else { "" }, self.stderr_s().chars().take(300).collect::<String>()) }
}
pub fn args(a: &[&str]) -> Vec<OsString> { a.iter().map(OsString::from).collect() }

pub fn run(c: &Cmd) -> Run {
    // kverif detaches itself from any controlling terminal at start-up (see `detach_from_terminal`), so the
    // children inherit a session without one and a password prompt fails instead of blocking. No pre_exec
    // hook: std then spawns with posix_spawn/vfork. stdin/stdout/stderr go through files in a private
    // scratch directory (no pipes, no reader threads), which keeps 16 workers from contending on the
    // parent's address-space lock.
    static SEQ: AtomicU64 = AtomicU64::new(0);
    let io = scratch_root().join(format!("kverif-io-{}-{}", std::process::id(), SEQ.fetch_add(1, Ordering::Relaxed)));
    let _ = std::fs::create_dir_all(&io);
    let mut cmd = match c.fsize_blocks {
        None if c.pty_lines.is_some() => {
            // script -qec '<quoted command line>' /dev/null : the tool gets a controlling terminal, -e hands its exit status back
            let q = |s: &std::ffi::OsStr| format!("'{}'", s.to_string_lossy().replace('\'', "'\\''"));
            let mut line = q(kestrel_bin().as_os_str()); for a in &c.args { line.push(' '); line.push_str(&q(a)); }
            let mut s = Command::new("/usr/bin/script"); s.arg("-qec").arg(line).arg("/dev/null"); s }
        None => Command::new(kestrel_bin()),
        Some(b) => { let mut s = Command::new("/bin/sh"); s.arg("-c").arg(format!("trap '' XFSZ; ulimit -f {}; exec \"$0\" \"$@\"", b)).arg(kestrel_bin()); s }
    };
    if c.pty_lines.is_none() { cmd.args(&c.args); }
    cmd.env_clear().current_dir(&c.cwd).env("TERM", "dumb").env("SHELL", "/bin/sh");
    for (k, v) in &c.env { cmd.env(k, v); }
    for (k, v) in &c.env_os { cmd.env(k, <std::ffi::OsString as std::os::unix::ffi::OsStringExt>::from_vec(v.clone())); }
    let mut fifo_feeders = Vec::new();
    for (name, data, sizes) in &c.fifos {
        let path = c.cwd.join(name); let cp = std::ffi::CString::new(path.to_string_lossy().as_bytes()).unwrap();
        unsafe { libc::mkfifo(cp.as_ptr(), 0o600); }
        let (data, sizes, done) = (data.clone(), sizes.clone(), std::sync::Arc::new(std::sync::atomic::AtomicBool::new(false))); let d2 = done.clone();
        // open non-blocking until a reader shows up (the tool may fail before it ever opens the FIFO)
        fifo_feeders.push((done, std::thread::spawn(move || { use std::io::Write; use std::os::unix::fs::OpenOptionsExt;
            let mut f = loop { match std::fs::OpenOptions::new().write(true).custom_flags(libc::O_NONBLOCK).open(&path) { Ok(f) => break f, Err(_) => { if d2.load(Ordering::Relaxed) { return; } std::thread::sleep(std::time::Duration::from_millis(2)); } } };
            unsafe { let fd = std::os::fd::AsRawFd::as_raw_fd(&f); let fl = libc::fcntl(fd, libc::F_GETFL); libc::fcntl(fd, libc::F_SETFL, fl & !libc::O_NONBLOCK); }
            let mut off = 0; let mut i = 0; while off < data.len() { let n = sizes.get(i).copied().unwrap_or(usize::MAX).max(1).min(data.len() - off); if f.write_all(&data[off..off + n]).is_err() { break; } off += n; i += 1; if i < 6 { std::thread::sleep(std::time::Duration::from_millis(40)); } } })));
    }
    let mut fifo_readers = Vec::new();
    for name in &c.out_fifos {
        use std::os::unix::fs::OpenOptionsExt;
        let path = c.cwd.join(name); let cp = std::ffi::CString::new(path.to_string_lossy().as_bytes()).unwrap();
        unsafe { libc::mkfifo(cp.as_ptr(), 0o600); }
        // the read end is open before the tool starts, so its open-for-writing never blocks
        let f = std::fs::OpenOptions::new().read(true).custom_flags(libc::O_NONBLOCK).open(&path);
        let done = std::sync::Arc::new(std::sync::atomic::AtomicBool::new(false)); let d2 = done.clone();
        fifo_readers.push((done, std::thread::spawn(move || { use std::io::Read; let mut got = Vec::new(); let mut f = match f { Ok(f) => f, Err(_) => return got }; let mut buf = vec![0u8; 65536];
            loop { match f.read(&mut buf) { Ok(0) => { if d2.load(Ordering::Relaxed) { break; } std::thread::sleep(std::time::Duration::from_millis(1)); } Ok(n) => got.extend_from_slice(&buf[..n]), Err(e) if e.kind() == std::io::ErrorKind::WouldBlock || e.kind() == std::io::ErrorKind::Interrupted => { if d2.load(Ordering::Relaxed) { break; } std::thread::sleep(std::time::Duration::from_millis(1)); } Err(_) => break } }
            got })));
    }
    if let Some(lines) = &c.pty_lines { let p = io.join("typed"); let _ = std::fs::write(&p, lines.iter().map(|l| format!("{}\n", l)).collect::<String>()); cmd.stdin(std::fs::File::open(&p).map(Stdio::from).unwrap_or_else(|_| Stdio::null())); }
    else { match &c.stdin {
        In::Null | In::Closed => { cmd.stdin(Stdio::null()); }
        In::Bytes(b) => { let p = io.join("stdin"); let _ = std::fs::write(&p, b); cmd.stdin(std::fs::File::open(&p).map(Stdio::from).unwrap_or_else(|_| Stdio::null())); }
        In::File(p) => { cmd.stdin(std::fs::File::open(p).map(Stdio::from).unwrap_or_else(|_| Stdio::null())); }
        In::Pipe(..) => { cmd.stdin(Stdio::piped()); }
    } }
    let mut closed_reader = None;
    match &c.stdout {
        Out::Capture => { cmd.stdout(std::fs::File::create(io.join("stdout")).map(Stdio::from).unwrap_or_else(|_| Stdio::null())); }
        Out::File(p) => { cmd.stdout(std::fs::File::create(p).map(Stdio::from).unwrap_or_else(|_| Stdio::null())); }
        Out::DevFull => { cmd.stdout(std::fs::OpenOptions::new().write(true).open("/dev/full").map(Stdio::from).unwrap_or_else(|_| Stdio::null())); }
        Out::Null => { cmd.stdout(Stdio::null()); }
        Out::PipeCapture => { cmd.stdout(Stdio::piped()); }
        Out::ClosedPipe => { let mut fds = [0i32; 2]; unsafe { libc::pipe2(fds.as_mut_ptr(), libc::O_CLOEXEC); } closed_reader = Some(fds[0]); cmd.stdout(unsafe { <Stdio as std::os::fd::FromRawFd>::from_raw_fd(fds[1]) }); }
    }
    cmd.stderr(std::fs::File::create(io.join("stderr")).map(Stdio::from).unwrap_or_else(|_| Stdio::null()));
    let mut child = match cmd.spawn() { Ok(c) => c, Err(e) => { let _ = std::fs::remove_dir_all(&io); for (d, _) in &fifo_readers { d.store(true, Ordering::Relaxed); } return Run { code: None, signal: None, stdout: vec![], stderr: format!("spawn failed: {}", e).into_bytes(), timed_out: false, fifo_out: vec![] } } };
    let drain = if c.stdout == Out::PipeCapture { child.stdout.take().map(|mut so| std::thread::spawn(move || { use std::io::Read; let mut v = Vec::new(); let _ = so.read_to_end(&mut v); v })) } else { None };
    let feeder = if let In::Pipe(data, sizes) = &c.stdin { child.stdin.take().map(|mut si| { let (data, sizes) = (data.clone(), sizes.clone()); std::thread::spawn(move || { use std::io::Write; let mut off = 0; let mut i = 0;
        while off < data.len() { let n = sizes.get(i).copied().unwrap_or(usize::MAX).max(1).min(data.len() - off); if si.write_all(&data[off..off + n]).is_err() { break; } let _ = si.flush(); off += n; i += 1; // the tool first unlocks a key (about 130 ms of scrypt) and only then reads: pieces are spaced so that
            // later ones arrive while it is already reading, which gives it short reads
            if i < 8 { std::thread::sleep(std::time::Duration::from_millis(70)); } } }) }) } else { None };
    drop(cmd); // closes the parent's copy of the write end of a ClosedPipe
    if let Some(fd) = closed_reader { unsafe { libc::close(fd); } }
    // blocking wait; a shared watchdog thread kills children that outlive their deadline
    let pid = child.id(); let deadline = std::time::Instant::now() + std::time::Duration::from_millis(c.timeout_ms);
    watchdog_add(pid, deadline);
    let status = child.wait().ok();
    let timed_out = watchdog_remove(pid);
    if let Some(f) = feeder { let _ = f.join(); }
    for (done, t) in fifo_feeders { done.store(true, Ordering::Relaxed); let _ = t.join(); }
    // the writer is gone: one more pass picks up what is still in the pipe, then the readers stop
    let fifo_out: Vec<Vec<u8>> = fifo_readers.into_iter().map(|(done, t)| { std::thread::sleep(std::time::Duration::from_millis(3)); done.store(true, Ordering::Relaxed); t.join().unwrap_or_default() }).collect();
    let stdout = if c.stdout == Out::Capture { std::fs::read(io.join("stdout")).unwrap_or_default() } else if let Some(d) = drain { d.join().unwrap_or_default() } else { vec![] };
    let stderr = std::fs::read(io.join("stderr")).unwrap_or_default();
    let _ = std::fs::remove_dir_all(&io);
    Run { code: status.and_then(|s| s.code()), signal: status.and_then(|s| s.signal()), stdout, stderr, timed_out, fifo_out }
}

static DIR_SEQ: AtomicU64 = AtomicU64::new(0);
/// Private scratch directory, removed on drop.
pub struct Sandbox { pub dir: PathBuf }
impl Sandbox {
    pub fn new() -> Sandbox {
        let d = scratch_root().join(format!("kverif-{}-{}", std::process::id(), DIR_SEQ.fetch_add(1, Ordering::Relaxed)));
        let _ = std::fs::remove_dir_all(&d); std::fs::create_dir_all(&d).expect("temp dir"); Sandbox { dir: d }
    }
    pub fn path(&self, name: &str) -> PathBuf { self.dir.join(name) }
    pub fn write(&self, name: &str, data: &[u8]) -> PathBuf { let p = self.path(name); std::fs::write(&p, data).expect("write temp file"); p }
    pub fn read(&self, name: &str) -> Option<Vec<u8>> { std::fs::read(self.path(name)).ok() }
    pub fn cmd(&self, a: &[&str]) -> Cmd { Cmd { args: args(a), env: vec![], stdin: In::Null, stdout: Out::Capture, cwd: self.dir.clone(), timeout_ms: 60_000, fsize_blocks: None, env_os: vec![], fifos: vec![], pty_lines: None, out_fifos: vec![] } }
}
impl Drop for Sandbox { fn drop(&mut self) { let _ = std::fs::remove_dir_all(&self.dir); } }
impl Cmd {
    pub fn env(mut self, k: &str, v: &str) -> Cmd { self.env.push((k.into(), v.into())); self }
    pub fn stdin(mut self, i: In) -> Cmd { self.stdin = i; self }
    pub fn stdout(mut self, o: Out) -> Cmd { self.stdout = o; self }
    pub fn run(&self) -> Run { run(self) }
}

/// An identity usable on the command line: the private key is locked with the implementation's own
/// lock (so that a format drift is reported under C15 only), the password is known.
#[derive(Clone, Debug)]
pub struct CliIdent { pub name: String, pub sk: [u8; 32], pub pk: [u8; 32], pub epk: String, pub esk: String, pub password: String }
pub fn make_ident(name: &str, seed: u64, password: &str) -> CliIdent {
    let sk = crate::gen::key32(seed, "cli-ident"); let pk = kspec::x25519_base(&sk);
    let esk = Keyring::lock_private_key(&PrivateKey::try_from(&sk[..]).unwrap(), password.as_bytes(), crate::gen::key32(seed, "cli-salt"));
    let epk = Keyring::encode_public_key(&PublicKey::try_from(&pk[..]).unwrap());
    CliIdent { name: name.into(), sk, pk, epk: epk.as_str().into(), esk: esk.as_str().into(), password: password.into() }
}
pub fn keyring_text(entries: &[(&CliIdent, bool)]) -> String {
    let mut s = String::new();
    for (i, (id, with_sk)) in entries.iter().enumerate() {
        if i > 0 { s.push('\n'); }
        if *with_sk { s.push_str(&Keyring::serialize_key(&id.name, &crate::keyring::EncodedPk::try_from(id.epk.as_str()).unwrap(), &EncodedSk::try_from(id.esk.as_str()).unwrap())); }
        else { s.push_str(&format!("[Key]\nName = {}\nPublicKey = {}\n", id.name, id.epk)); }
    }
    s
}
pub fn pty_available() -> bool { Path::new("/usr/bin/script").exists() }
pub fn exists(p: &Path) -> bool { std::fs::symlink_metadata(p).is_ok() }

static WATCHED: std::sync::Mutex<Vec<(u32, std::time::Instant, bool)>> = std::sync::Mutex::new(Vec::new());
static WATCHDOG: std::sync::Once = std::sync::Once::new();
fn watchdog_add(pid: u32, deadline: std::time::Instant) {
    WATCHDOG.call_once(|| { std::thread::spawn(|| loop {
        std::thread::sleep(std::time::Duration::from_millis(100));
        let now = std::time::Instant::now();
        for e in WATCHED.lock().unwrap().iter_mut() { if !e.2 && now > e.1 { e.2 = true; unsafe { libc::kill(e.0 as i32, libc::SIGKILL); } } }
    }); });
    WATCHED.lock().unwrap().push((pid, deadline, false));
}
/// Returns true if the watchdog had to kill the process.
fn watchdog_remove(pid: u32) -> bool { let mut w = WATCHED.lock().unwrap(); if let Some(i) = w.iter().position(|e| e.0 == pid) { w.swap_remove(i).2 } else { false } }

/// If this process has a controlling terminal, re-execute it in a new session (once), so that neither it nor
/// the CLI processes it starts can ever block on a terminal prompt.
pub fn detach_from_terminal() {
    if std::env::var("KVERIF_DETACHED").is_ok() { return; }
    if std::fs::OpenOptions::new().read(true).write(true).open("/dev/tty").is_err() { return; }
    if !Path::new(SETSID).exists() { unsafe { libc::setsid(); } return; }
    let args: Vec<OsString> = std::env::args_os().collect();
    let st = Command::new(SETSID).arg("--wait").args(&args).env("KVERIF_DETACHED", "1").status();
    match st { Ok(s) => std::process::exit(s.code().unwrap_or(2)), Err(_) => {} }
}
