//! Executable specification of the kestrel formats: written from the RFCs and docs/file-format.txt,
//! no code shared with kestrel or orion. Validated by `selftest()` (RFC vectors) at the start of every check.
#![allow(clippy::needless_range_loop)]

// ---------------------------------------------------------------- SHA-256 (FIPS 180-4)
const K256: [u32; 64] = [
    0x428a2f98, 0x71374491, 0xb5c0fbcf, 0xe9b5dba5, 0x3956c25b, 0x59f111f1, 0x923f82a4, 0xab1c5ed5,
    0xd807aa98, 0x12835b01, 0x243185be, 0x550c7dc3, 0x72be5d74, 0x80deb1fe, 0x9bdc06a7, 0xc19bf174,
    0xe49b69c1, 0xefbe4786, 0x0fc19dc6, 0x240ca1cc, 0x2de92c6f, 0x4a7484aa, 0x5cb0a9dc, 0x76f988da,
    0x983e5152, 0xa831c66d, 0xb00327c8, 0xbf597fc7, 0xc6e00bf3, 0xd5a79147, 0x06ca6351, 0x14292967,
    0x27b70a85, 0x2e1b2138, 0x4d2c6dfc, 0x53380d13, 0x650a7354, 0x766a0abb, 0x81c2c92e, 0x92722c85,
    0xa2bfe8a1, 0xa81a664b, 0xc24b8b70, 0xc76c51a3, 0xd192e819, 0xd6990624, 0xf40e3585, 0x106aa070,
    0x19a4c116, 0x1e376c08, 0x2748774c, 0x34b0bcb5, 0x391c0cb3, 0x4ed8aa4a, 0x5b9cca4f, 0x682e6ff3,
    0x748f82ee, 0x78a5636f, 0x84c87814, 0x8cc70208, 0x90befffa, 0xa4506ceb, 0xbef9a3f7, 0xc67178f2,
];

pub struct Sha256 { h: [u32; 8], buf: [u8; 64], buflen: usize, total: u64 }
impl Sha256 {
    pub fn new() -> Self {
        Sha256 { h: [0x6a09e667, 0xbb67ae85, 0x3c6ef372, 0xa54ff53a, 0x510e527f, 0x9b05688c, 0x1f83d9ab, 0x5be0cd19],
                 buf: [0; 64], buflen: 0, total: 0 }
    }
    fn block(h: &mut [u32; 8], b: &[u8]) {
        let mut w = [0u32; 64];
        for i in 0..16 { w[i] = u32::from_be_bytes([b[4*i], b[4*i+1], b[4*i+2], b[4*i+3]]); }
        for i in 16..64 {
            let s0 = w[i-15].rotate_right(7) ^ w[i-15].rotate_right(18) ^ (w[i-15] >> 3);
            let s1 = w[i-2].rotate_right(17) ^ w[i-2].rotate_right(19) ^ (w[i-2] >> 10);
            w[i] = w[i-16].wrapping_add(s0).wrapping_add(w[i-7]).wrapping_add(s1);
        }
        let (mut a, mut bb, mut c, mut d, mut e, mut f, mut g, mut hh) = (h[0], h[1], h[2], h[3], h[4], h[5], h[6], h[7]);
        for i in 0..64 {
            let s1 = e.rotate_right(6) ^ e.rotate_right(11) ^ e.rotate_right(25);
            let ch = (e & f) ^ (!e & g);
            let t1 = hh.wrapping_add(s1).wrapping_add(ch).wrapping_add(K256[i]).wrapping_add(w[i]);
            let s0 = a.rotate_right(2) ^ a.rotate_right(13) ^ a.rotate_right(22);
            let maj = (a & bb) ^ (a & c) ^ (bb & c);
            let t2 = s0.wrapping_add(maj);
            hh = g; g = f; f = e; e = d.wrapping_add(t1); d = c; c = bb; bb = a; a = t1.wrapping_add(t2);
        }
        h[0] = h[0].wrapping_add(a); h[1] = h[1].wrapping_add(bb); h[2] = h[2].wrapping_add(c); h[3] = h[3].wrapping_add(d);
        h[4] = h[4].wrapping_add(e); h[5] = h[5].wrapping_add(f); h[6] = h[6].wrapping_add(g); h[7] = h[7].wrapping_add(hh);
    }
    pub fn update(&mut self, mut data: &[u8]) {
        self.total = self.total.wrapping_add(data.len() as u64);
        if self.buflen > 0 {
            let take = (64 - self.buflen).min(data.len());
            self.buf[self.buflen..self.buflen + take].copy_from_slice(&data[..take]);
            self.buflen += take; data = &data[take..];
            if self.buflen == 64 { let b = self.buf; Self::block(&mut self.h, &b); self.buflen = 0; }
        }
        while data.len() >= 64 { Self::block(&mut self.h, &data[..64]); data = &data[64..]; }
        if !data.is_empty() { self.buf[..data.len()].copy_from_slice(data); self.buflen = data.len(); }
    }
    pub fn finish(mut self) -> [u8; 32] {
        let bits = self.total.wrapping_mul(8);
        let mut pad = vec![0x80u8];
        let rem = (self.buflen + 1) % 64;
        let zeros = if rem <= 56 { 56 - rem } else { 120 - rem };
        pad.extend(std::iter::repeat(0u8).take(zeros));
        pad.extend_from_slice(&bits.to_be_bytes());
        let total = self.total; self.update(&pad); self.total = total;
        debug_assert_eq!(self.buflen, 0);
        let mut out = [0u8; 32];
        for i in 0..8 { out[4*i..4*i+4].copy_from_slice(&self.h[i].to_be_bytes()); }
        out
    }
}
pub fn sha256(data: &[u8]) -> [u8; 32] { let mut s = Sha256::new(); s.update(data); s.finish() }

// ---------------------------------------------------------------- HMAC (RFC 2104), HKDF (RFC 5869), PBKDF2 (RFC 8018)
pub fn hmac_key_block(key: &[u8]) -> [u8; 64] {
    let mut k = [0u8; 64];
    if key.len() > 64 { k[..32].copy_from_slice(&sha256(key)); } else { k[..key.len()].copy_from_slice(key); }
    k
}
pub fn hmac_sha256(key: &[u8], data: &[u8]) -> [u8; 32] {
    let k = hmac_key_block(key);
    let mut ipad = [0x36u8; 64]; let mut opad = [0x5cu8; 64];
    for i in 0..64 { ipad[i] ^= k[i]; opad[i] ^= k[i]; }
    let mut inner = Sha256::new(); inner.update(&ipad); inner.update(data); let ih = inner.finish();
    let mut outer = Sha256::new(); outer.update(&opad); outer.update(&ih); outer.finish()
}
pub fn hkdf_sha256(salt: &[u8], ikm: &[u8], info: &[u8], len: usize) -> Vec<u8> {
    assert!(len <= 255 * 32);
    let zero = [0u8; 32];
    let prk = hmac_sha256(if salt.is_empty() { &zero } else { salt }, ikm);
    let mut okm = Vec::with_capacity(len); let mut t: Vec<u8> = Vec::new(); let mut ctr = 1u8;
    while okm.len() < len {
        let mut m = t.clone(); m.extend_from_slice(info); m.push(ctr);
        t = hmac_sha256(&prk, &m).to_vec();
        okm.extend_from_slice(&t); ctr = ctr.wrapping_add(1);
    }
    okm.truncate(len); okm
}
pub fn pbkdf2_sha256(pw: &[u8], salt: &[u8], iters: u32, dklen: usize) -> Vec<u8> {
    let mut out = Vec::with_capacity(dklen); let mut i = 1u32;
    while out.len() < dklen {
        let mut m = salt.to_vec(); m.extend_from_slice(&i.to_be_bytes());
        let mut u = hmac_sha256(pw, &m); let mut t = u;
        for _ in 1..iters { u = hmac_sha256(pw, &u); for j in 0..32 { t[j] ^= u[j]; } }
        out.extend_from_slice(&t); i += 1;
    }
    out.truncate(dklen); out
}

// ---------------------------------------------------------------- scrypt (RFC 7914)
fn salsa20_8(b: &mut [u32; 16]) {
    let mut x = *b;
    macro_rules! qr { ($a:expr,$b:expr,$c:expr,$d:expr) => {
        x[$b] ^= x[$a].wrapping_add(x[$d]).rotate_left(7);
        x[$c] ^= x[$b].wrapping_add(x[$a]).rotate_left(9);
        x[$d] ^= x[$c].wrapping_add(x[$b]).rotate_left(13);
        x[$a] ^= x[$d].wrapping_add(x[$c]).rotate_left(18);
    } }
    for _ in 0..4 {
        qr!(0, 4, 8, 12); qr!(5, 9, 13, 1); qr!(10, 14, 2, 6); qr!(15, 3, 7, 11);
        qr!(0, 1, 2, 3); qr!(5, 6, 7, 4); qr!(10, 11, 8, 9); qr!(15, 12, 13, 14);
    }
    for i in 0..16 { b[i] = b[i].wrapping_add(x[i]); }
}
fn block_mix(b: &[u32], r: usize) -> Vec<u32> {
    // B = B[0..2r-1] of 16 words each
    let mut x = [0u32; 16]; x.copy_from_slice(&b[(2 * r - 1) * 16..2 * r * 16]);
    let mut y = vec![0u32; 32 * r];
    for i in 0..2 * r {
        for j in 0..16 { x[j] ^= b[i * 16 + j]; }
        salsa20_8(&mut x);
        let dst = if i % 2 == 0 { i / 2 } else { r + i / 2 };
        y[dst * 16..dst * 16 + 16].copy_from_slice(&x);
    }
    y
}
fn ro_mix(block: &mut [u8], n: usize, r: usize) {
    let words = 32 * r;
    let mut x: Vec<u32> = (0..words).map(|i| u32::from_le_bytes([block[4*i], block[4*i+1], block[4*i+2], block[4*i+3]])).collect();
    let mut v: Vec<u32> = Vec::with_capacity(n * words);
    for _ in 0..n { v.extend_from_slice(&x); x = block_mix(&x, r); }
    for _ in 0..n {
        let j = (x[(2 * r - 1) * 16] as u64 | ((x[(2 * r - 1) * 16 + 1] as u64) << 32)) as usize & (n - 1);
        for k in 0..words { x[k] ^= v[j * words + k]; }
        x = block_mix(&x, r);
    }
    for i in 0..words { block[4*i..4*i+4].copy_from_slice(&x[i].to_le_bytes()); }
}
pub fn scrypt(pw: &[u8], salt: &[u8], n: usize, r: usize, p: usize, dklen: usize) -> Vec<u8> {
    assert!(n > 1 && n & (n - 1) == 0 && r >= 1 && p >= 1);
    let mut b = pbkdf2_sha256(pw, salt, 1, p * 128 * r);
    for i in 0..p { ro_mix(&mut b[i * 128 * r..(i + 1) * 128 * r], n, r); }
    pbkdf2_sha256(pw, &b, 1, dklen)
}

// ---------------------------------------------------------------- ChaCha20, Poly1305, AEAD (RFC 8439)
fn chacha20_block(key: &[u8; 32], counter: u32, nonce: &[u8; 12]) -> [u8; 64] {
    let mut s = [0u32; 16];
    s[0] = 0x61707865; s[1] = 0x3320646e; s[2] = 0x79622d32; s[3] = 0x6b206574;
    for i in 0..8 { s[4 + i] = u32::from_le_bytes([key[4*i], key[4*i+1], key[4*i+2], key[4*i+3]]); }
    s[12] = counter;
    for i in 0..3 { s[13 + i] = u32::from_le_bytes([nonce[4*i], nonce[4*i+1], nonce[4*i+2], nonce[4*i+3]]); }
    let mut x = s;
    macro_rules! qr { ($a:expr,$b:expr,$c:expr,$d:expr) => {
        x[$a] = x[$a].wrapping_add(x[$b]); x[$d] ^= x[$a]; x[$d] = x[$d].rotate_left(16);
        x[$c] = x[$c].wrapping_add(x[$d]); x[$b] ^= x[$c]; x[$b] = x[$b].rotate_left(12);
        x[$a] = x[$a].wrapping_add(x[$b]); x[$d] ^= x[$a]; x[$d] = x[$d].rotate_left(8);
        x[$c] = x[$c].wrapping_add(x[$d]); x[$b] ^= x[$c]; x[$b] = x[$b].rotate_left(7);
    } }
    for _ in 0..10 {
        qr!(0, 4, 8, 12); qr!(1, 5, 9, 13); qr!(2, 6, 10, 14); qr!(3, 7, 11, 15);
        qr!(0, 5, 10, 15); qr!(1, 6, 11, 12); qr!(2, 7, 8, 13); qr!(3, 4, 9, 14);
    }
    let mut out = [0u8; 64];
    for i in 0..16 { out[4*i..4*i+4].copy_from_slice(&x[i].wrapping_add(s[i]).to_le_bytes()); }
    out
}
pub fn chacha20_xor(key: &[u8; 32], counter: u32, nonce: &[u8; 12], data: &[u8]) -> Vec<u8> {
    let mut out = Vec::with_capacity(data.len());
    for (i, chunk) in data.chunks(64).enumerate() {
        let ks = chacha20_block(key, counter.wrapping_add(i as u32), nonce);
        for (j, b) in chunk.iter().enumerate() { out.push(b ^ ks[j]); }
    }
    out
}
pub fn poly1305(key: &[u8; 32], msg: &[u8]) -> [u8; 16] {
    let le = |b: &[u8]| u32::from_le_bytes([b[0], b[1], b[2], b[3]]) as u64;
    let r0 = le(&key[0..]) & 0x3ffffff;
    let r1 = (le(&key[3..]) >> 2) & 0x3ffff03;
    let r2 = (le(&key[6..]) >> 4) & 0x3ffc0ff;
    let r3 = (le(&key[9..]) >> 6) & 0x3f03fff;
    let r4 = (le(&key[12..]) >> 8) & 0x00fffff;
    let (s1, s2, s3, s4) = (r1 * 5, r2 * 5, r3 * 5, r4 * 5);
    let (mut h0, mut h1, mut h2, mut h3, mut h4) = (0u64, 0u64, 0u64, 0u64, 0u64);
    let mut blocks = msg.chunks(16).peekable();
    while let Some(c) = blocks.next() {
        let mut m = [0u8; 17];
        m[..c.len()].copy_from_slice(c); m[c.len()] = 1;
        let hibit: u64 = if c.len() == 16 { 1 << 24 } else { 0 };
        // for partial block the 0x01 byte is inside the 16 bytes (m[c.len()]), hibit = 0
        h0 += le(&m[0..]) & 0x3ffffff;
        h1 += (le(&m[3..]) >> 2) & 0x3ffffff;
        h2 += (le(&m[6..]) >> 4) & 0x3ffffff;
        h3 += (le(&m[9..]) >> 6) & 0x3ffffff;
        h4 += (le(&m[12..]) >> 8) | hibit;
        let d0 = h0 * r0 + h1 * s4 + h2 * s3 + h3 * s2 + h4 * s1;
        let mut d1 = h0 * r1 + h1 * r0 + h2 * s4 + h3 * s3 + h4 * s2;
        let mut d2 = h0 * r2 + h1 * r1 + h2 * r0 + h3 * s4 + h4 * s3;
        let mut d3 = h0 * r3 + h1 * r2 + h2 * r1 + h3 * r0 + h4 * s4;
        let mut d4 = h0 * r4 + h1 * r3 + h2 * r2 + h3 * r1 + h4 * r0;
        let mut c2 = d0 >> 26; h0 = d0 & 0x3ffffff;
        d1 += c2; c2 = d1 >> 26; h1 = d1 & 0x3ffffff;
        d2 += c2; c2 = d2 >> 26; h2 = d2 & 0x3ffffff;
        d3 += c2; c2 = d3 >> 26; h3 = d3 & 0x3ffffff;
        d4 += c2; c2 = d4 >> 26; h4 = d4 & 0x3ffffff;
        h0 += c2 * 5; c2 = h0 >> 26; h0 &= 0x3ffffff; h1 += c2;
    }
    // full carry
    let mut c = h1 >> 26; h1 &= 0x3ffffff;
    h2 += c; c = h2 >> 26; h2 &= 0x3ffffff;
    h3 += c; c = h3 >> 26; h3 &= 0x3ffffff;
    h4 += c; c = h4 >> 26; h4 &= 0x3ffffff;
    h0 += c * 5; c = h0 >> 26; h0 &= 0x3ffffff; h1 += c;
    // compute h + -p
    let mut g0 = h0 + 5; c = g0 >> 26; g0 &= 0x3ffffff;
    let mut g1 = h1 + c; c = g1 >> 26; g1 &= 0x3ffffff;
    let mut g2 = h2 + c; c = g2 >> 26; g2 &= 0x3ffffff;
    let mut g3 = h3 + c; c = g3 >> 26; g3 &= 0x3ffffff;
    let g4 = (h4 + c).wrapping_sub(1 << 26);
    if (g4 >> 63) == 0 { h0 = g0; h1 = g1; h2 = g2; h3 = g3; h4 = g4 & 0x3ffffff; }
    // h mod 2^128 as a u128
    let h: u128 = (h0 as u128) | ((h1 as u128) << 26) | ((h2 as u128) << 52) | ((h3 as u128) << 78) | ((h4 as u128) << 104);
    let s = u128::from_le_bytes(key[16..32].try_into().unwrap());
    h.wrapping_add(s).to_le_bytes()
}
fn aead_mac(otk: &[u8; 32], aad: &[u8], ct: &[u8]) -> [u8; 16] {
    let mut m = Vec::with_capacity(aad.len() + ct.len() + 48);
    m.extend_from_slice(aad); while m.len() % 16 != 0 { m.push(0); }
    m.extend_from_slice(ct); while m.len() % 16 != 0 { m.push(0); }
    m.extend_from_slice(&(aad.len() as u64).to_le_bytes());
    m.extend_from_slice(&(ct.len() as u64).to_le_bytes());
    poly1305(otk, &m)
}
pub fn aead_seal(key: &[u8; 32], nonce: &[u8; 12], aad: &[u8], pt: &[u8]) -> Vec<u8> {
    let otk: [u8; 32] = chacha20_block(key, 0, nonce)[..32].try_into().unwrap();
    let mut ct = chacha20_xor(key, 1, nonce, pt);
    let tag = aead_mac(&otk, aad, &ct);
    ct.extend_from_slice(&tag); ct
}
pub fn aead_open(key: &[u8; 32], nonce: &[u8; 12], aad: &[u8], ct_tag: &[u8]) -> Option<Vec<u8>> {
    if ct_tag.len() < 16 { return None; }
    let (ct, tag) = ct_tag.split_at(ct_tag.len() - 16);
    let otk: [u8; 32] = chacha20_block(key, 0, nonce)[..32].try_into().unwrap();
    let exp = aead_mac(&otk, aad, ct);
    if exp[..] != tag[..] { return None; }
    Some(chacha20_xor(key, 1, nonce, ct))
}
pub fn noise_nonce(n: u64) -> [u8; 12] { let mut x = [0u8; 12]; x[4..].copy_from_slice(&n.to_le_bytes()); x }

// ---------------------------------------------------------------- X25519 (RFC 7748), 4x64-bit limbs, p = 2^255-19
type Fe = [u64; 4];
const P: Fe = [0xffff_ffff_ffff_ffed, 0xffff_ffff_ffff_ffff, 0xffff_ffff_ffff_ffff, 0x7fff_ffff_ffff_ffff];
fn fe_add(a: &Fe, b: &Fe) -> Fe {
    let mut r = [0u64; 4]; let mut c = 0u128;
    for i in 0..4 { let t = a[i] as u128 + b[i] as u128 + c; r[i] = t as u64; c = t >> 64; }
    let mut carry = c as u64;
    while carry != 0 { // 2^256 = 38 mod p
        let mut cc = carry as u128 * 38;
        for i in 0..4 { let t = r[i] as u128 + cc; r[i] = t as u64; cc = t >> 64; }
        carry = cc as u64;
    }
    r
}
fn fe_sub(a: &Fe, b: &Fe) -> Fe {
    let mut r = [0u64; 4]; let mut borrow = 0i128;
    for i in 0..4 { let t = a[i] as i128 - b[i] as i128 + borrow; r[i] = t as u64; borrow = t >> 64; }
    let mut under = borrow != 0;
    while under { // wrapped by 2^256 = 38: subtract 38
        let mut bb: i128 = -38; under = false;
        for i in 0..4 { let t = r[i] as i128 + bb; r[i] = t as u64; bb = t >> 64; }
        if bb != 0 { under = true; }
    }
    r
}
fn fe_mul(a: &Fe, b: &Fe) -> Fe {
    let mut t = [0u128; 8];
    let mut prod = [0u64; 8];
    for i in 0..4 { let mut carry = 0u128; for j in 0..4 {
        let cur = prod[i + j] as u128 + (a[i] as u128) * (b[j] as u128) + carry;
        prod[i + j] = cur as u64; carry = cur >> 64; }
        prod[i + 4] = carry as u64; }
    let _ = &mut t;
    // reduce: lo + 38*hi
    let mut r = [0u64; 4]; let mut c = 0u128;
    for i in 0..4 { let cur = prod[i] as u128 + (prod[i + 4] as u128) * 38 + c; r[i] = cur as u64; c = cur >> 64; }
    let mut carry = c as u64;
    while carry != 0 {
        let mut cc = carry as u128 * 38; 
        for i in 0..4 { let cur = r[i] as u128 + cc; r[i] = cur as u64; cc = cur >> 64; }
        carry = cc as u64;
    }
    r
}
fn fe_sq(a: &Fe) -> Fe { fe_mul(a, a) }
fn fe_ge_p(a: &Fe) -> bool { for i in (0..4).rev() { if a[i] > P[i] { return true; } if a[i] < P[i] { return false; } } true }
fn fe_canon(a: &Fe) -> Fe {
    let mut r = *a;
    while fe_ge_p(&r) { let mut borrow = 0i128; for i in 0..4 { let t = r[i] as i128 - P[i] as i128 + borrow; r[i] = t as u64; borrow = t >> 64; } }
    r
}
fn fe_invert(a: &Fe) -> Fe { // a^(p-2)
    let mut e = P; e[0] -= 2;
    let mut result: Fe = [1, 0, 0, 0]; let mut base = *a;
    for i in 0..255 { if (e[i / 64] >> (i % 64)) & 1 == 1 { result = fe_mul(&result, &base); } base = fe_sq(&base); }
    result
}
pub fn x25519(k: &[u8; 32], u: &[u8; 32]) -> [u8; 32] {
    let mut kk = *k; kk[0] &= 248; kk[31] &= 127; kk[31] |= 64;
    let mut uu = *u; uu[31] &= 127;
    let mut x1 = [0u64; 4]; for i in 0..4 { x1[i] = u64::from_le_bytes(uu[8*i..8*i+8].try_into().unwrap()); }
    let x1 = fe_canon(&x1);
    let (mut x2, mut z2, mut x3, mut z3): (Fe, Fe, Fe, Fe) = ([1, 0, 0, 0], [0; 4], x1, [1, 0, 0, 0]);
    let a24: Fe = [121665, 0, 0, 0];
    let mut swap = 0u8;
    for t in (0..255).rev() {
        let kt = (kk[t / 8] >> (t % 8)) & 1;
        swap ^= kt;
        if swap == 1 { std::mem::swap(&mut x2, &mut x3); std::mem::swap(&mut z2, &mut z3); }
        swap = kt;
        let a = fe_add(&x2, &z2); let aa = fe_sq(&a);
        let b = fe_sub(&x2, &z2); let bb = fe_sq(&b);
        let e = fe_sub(&aa, &bb);
        let c = fe_add(&x3, &z3); let d = fe_sub(&x3, &z3);
        let da = fe_mul(&d, &a); let cb = fe_mul(&c, &b);
        x3 = fe_sq(&fe_add(&da, &cb));
        z3 = fe_mul(&x1, &fe_sq(&fe_sub(&da, &cb)));
        x2 = fe_mul(&aa, &bb);
        z2 = fe_mul(&e, &fe_add(&aa, &fe_mul(&a24, &e)));
    }
    if swap == 1 { std::mem::swap(&mut x2, &mut x3); std::mem::swap(&mut z2, &mut z3); }
    let r = fe_canon(&fe_mul(&x2, &fe_invert(&z2)));
    let mut out = [0u8; 32]; for i in 0..4 { out[8*i..8*i+8].copy_from_slice(&r[i].to_le_bytes()); }
    out
}
pub fn x25519_base(k: &[u8; 32]) -> [u8; 32] { let mut b = [0u8; 32]; b[0] = 9; x25519(k, &b) }

// ---------------------------------------------------------------- Noise_X_25519_ChaChaPoly_SHA256 (Noise rev 34)
pub struct Sym { pub ck: [u8; 32], pub h: [u8; 32], pub k: Option<[u8; 32]>, pub n: u64 }
impl Sym {
    pub fn new(name: &[u8]) -> Self {
        let mut h = [0u8; 32];
        if name.len() <= 32 { h[..name.len()].copy_from_slice(name); } else { h = sha256(name); }
        Sym { ck: h, h, k: None, n: 0 }
    }
    pub fn mix_hash(&mut self, d: &[u8]) { let mut s = Sha256::new(); s.update(&self.h); s.update(d); self.h = s.finish(); }
    pub fn mix_key(&mut self, ikm: &[u8]) {
        let temp = hmac_sha256(&self.ck, ikm);
        let o1 = hmac_sha256(&temp, &[1]);
        let mut m = o1.to_vec(); m.push(2);
        let o2 = hmac_sha256(&temp, &m);
        self.ck = o1; self.k = Some(o2); self.n = 0;
    }
    pub fn encrypt_and_hash(&mut self, pt: &[u8]) -> Vec<u8> {
        let ct = match self.k { Some(k) => { let c = aead_seal(&k, &noise_nonce(self.n), &self.h, pt); self.n += 1; c } None => pt.to_vec() };
        self.mix_hash(&ct); ct
    }
    pub fn decrypt_and_hash(&mut self, ct: &[u8]) -> Option<Vec<u8>> {
        let pt = match self.k { Some(k) => { let p = aead_open(&k, &noise_nonce(self.n), &self.h, ct)?; self.n += 1; p } None => ct.to_vec() };
        self.mix_hash(ct); Some(pt)
    }
}
pub const NOISE_NAME: &[u8] = b"Noise_X_25519_ChaChaPoly_SHA256";
/// Initiator. `s_pub_claimed` / `e_pub_claimed` are what is *sent*; DH uses the private keys.
pub fn noise_x_write(prologue: &[u8], s_priv: &[u8; 32], s_pub_claimed: &[u8; 32], rs: &[u8; 32],
                     e_priv: &[u8; 32], e_pub_claimed: &[u8; 32], payload: &[u8]) -> (Vec<u8>, [u8; 32]) {
    let mut st = Sym::new(NOISE_NAME);
    st.mix_hash(prologue); st.mix_hash(rs);
    let mut msg = Vec::new();
    msg.extend_from_slice(e_pub_claimed); st.mix_hash(e_pub_claimed);      // e
    st.mix_key(&x25519(e_priv, rs));                                        // es
    let c = st.encrypt_and_hash(s_pub_claimed); msg.extend_from_slice(&c);  // s
    st.mix_key(&x25519(s_priv, rs));                                        // ss
    let c = st.encrypt_and_hash(payload); msg.extend_from_slice(&c);
    (msg, st.h)
}
pub struct NoiseRead { pub payload: Vec<u8>, pub rs: [u8; 32], pub h: [u8; 32] }
pub fn noise_x_read(prologue: &[u8], r_priv: &[u8; 32], r_pub: &[u8; 32], msg: &[u8]) -> Option<NoiseRead> {
    if msg.len() < 32 + 48 + 16 { return None; }
    let mut st = Sym::new(NOISE_NAME);
    st.mix_hash(prologue); st.mix_hash(r_pub);
    let re: [u8; 32] = msg[..32].try_into().unwrap(); st.mix_hash(&re);
    let dh = x25519(r_priv, &re); if dh == [0u8; 32] { return None; }
    st.mix_key(&dh);
    let rs: [u8; 32] = st.decrypt_and_hash(&msg[32..80])?.try_into().ok()?;
    let dh = x25519(r_priv, &rs); if dh == [0u8; 32] { return None; }
    st.mix_key(&dh);
    let payload = st.decrypt_and_hash(&msg[80..])?;
    Some(NoiseRead { payload, rs, h: st.h })
}

// ---------------------------------------------------------------- file formats (docs/file-format.txt)
pub const MAGIC_KEY: [u8; 4] = [0x65, 0x67, 0x6b, 0x10];
pub const MAGIC_PASS: [u8; 4] = [0x65, 0x67, 0x6b, 0x20];
pub const MAGIC_SK: [u8; 4] = [0x65, 0x67, 0x6b, 0x30];
pub fn write_chunks(out: &mut Vec<u8>, key: &[u8; 32], aad_prefix: &[u8], plaintext: &[u8], chunk_lens: &[usize]) {
    let lens: Vec<usize> = if chunk_lens.is_empty() { vec![0] } else { chunk_lens.to_vec() };
    assert_eq!(lens.iter().sum::<usize>(), plaintext.len());
    let mut off = 0;
    for (i, l) in lens.iter().enumerate() {
        let flag: u32 = if i + 1 == lens.len() { 1 } else { 0 };
        let mut hdr = Vec::new();
        hdr.extend_from_slice(&(i as u64).to_be_bytes()); hdr.extend_from_slice(&flag.to_be_bytes()); hdr.extend_from_slice(&(*l as u32).to_be_bytes());
        let mut aad = aad_prefix.to_vec(); aad.extend_from_slice(&hdr[8..]);
        out.extend_from_slice(&hdr);
        out.extend_from_slice(&aead_seal(key, &noise_nonce(i as u64), &aad, &plaintext[off..off + l]));
        off += l;
    }
}
pub fn key_file(s_priv: &[u8; 32], rs: &[u8; 32], e_priv: &[u8; 32], payload_key: &[u8; 32], plaintext: &[u8], chunk_lens: &[usize]) -> Vec<u8> {
    let (msg, h) = noise_x_write(&MAGIC_KEY, s_priv, &x25519_base(s_priv), rs, e_priv, &x25519_base(e_priv), payload_key);
    let fk: [u8; 32] = hkdf_sha256(&[], payload_key, &h, 32).try_into().unwrap();
    let mut out = MAGIC_KEY.to_vec(); out.extend_from_slice(&msg);
    write_chunks(&mut out, &fk, &[], plaintext, chunk_lens); out
}
pub fn pass_file(pw: &[u8], salt: &[u8; 32], plaintext: &[u8], chunk_lens: &[usize]) -> Vec<u8> {
    let k: [u8; 32] = scrypt(pw, salt, 32768, 8, 1, 32).try_into().unwrap();
    let mut out = MAGIC_PASS.to_vec(); out.extend_from_slice(salt);
    write_chunks(&mut out, &k, &MAGIC_PASS, plaintext, chunk_lens); out
}
#[derive(Debug, Clone, PartialEq)]
pub enum Verdict { Accept(Vec<u8>), Reject(&'static str) }
pub fn decrypt_chunks(b: &[u8], key: &[u8; 32], aad_prefix: &[u8], max: usize) -> Verdict {
    let (mut off, mut i, mut out) = (0usize, 0u64, Vec::new());
    loop {
        if b.len() - off < 16 { return Verdict::Reject("truncated header"); }
        let flag = u32::from_be_bytes(b[off + 8..off + 12].try_into().unwrap());
        let len = u32::from_be_bytes(b[off + 12..off + 16].try_into().unwrap()) as usize;
        if len > max { return Verdict::Reject("chunk length"); }
        if b.len() - off - 16 < len + 16 { return Verdict::Reject("truncated body"); }
        let mut aad = aad_prefix.to_vec(); aad.extend_from_slice(&b[off + 8..off + 16]);
        let Some(pt) = aead_open(key, &noise_nonce(i), &aad, &b[off + 16..off + 32 + len]) else { return Verdict::Reject("authentication"); };
        let end = off + 32 + len; out.extend_from_slice(&pt);
        if flag == 1 { return if end != b.len() { Verdict::Reject("trailing data") } else { Verdict::Accept(out) }; }
        off = end; i += 1;
    }
}
pub fn base64(data: &[u8]) -> String {
    const A: &[u8] = b"ABCDEFGHIJKLMNOPQRSTUVWXYZabcdefghijklmnopqrstuvwxyz0123456789+/";
    let mut s = String::new();
    for c in data.chunks(3) {
        let n = (c[0] as u32) << 16 | (*c.get(1).unwrap_or(&0) as u32) << 8 | *c.get(2).unwrap_or(&0) as u32;
        s.push(A[(n >> 18) as usize & 63] as char); s.push(A[(n >> 12) as usize & 63] as char);
        s.push(if c.len() > 1 { A[(n >> 6) as usize & 63] as char } else { '=' });
        s.push(if c.len() > 2 { A[n as usize & 63] as char } else { '=' });
    }
    s
}
pub fn lock_private_key(sk: &[u8; 32], pw: &[u8], salt: &[u8; 32]) -> String {
    let k: [u8; 32] = scrypt(pw, salt, 32768, 8, 1, 32).try_into().unwrap();
    let mut blob = MAGIC_SK.to_vec(); blob.extend_from_slice(salt);
    blob.extend_from_slice(&aead_seal(&k, &[0u8; 12], &MAGIC_SK, sk));
    base64(&blob)
}
pub fn encode_public_key(pk: &[u8; 32]) -> String { let mut b = pk.to_vec(); b.extend_from_slice(&sha256(pk)[..4]); base64(&b) }

// ---------------------------------------------------------------- records, acceptance with trace
/// One chunk record as it appears in a file: (counter, flag, length field, ct||tag bytes).
#[derive(Debug, Clone, PartialEq)]
pub struct Record { pub counter: u64, pub flag: u32, pub len_field: u32, pub body: Vec<u8> }
impl Record {
    pub fn to_bytes(&self) -> Vec<u8> {
        let mut v = Vec::with_capacity(16 + self.body.len());
        v.extend_from_slice(&self.counter.to_be_bytes()); v.extend_from_slice(&self.flag.to_be_bytes());
        v.extend_from_slice(&self.len_field.to_be_bytes()); v.extend_from_slice(&self.body); v
    }
}
/// Split a chunk area into records by the length fields (None if the framing does not fit exactly
/// up to and including the first record whose framing is incomplete).
pub fn parse_records(b: &[u8]) -> Option<Vec<Record>> {
    let mut off = 0; let mut v = Vec::new();
    while off < b.len() {
        if b.len() - off < 16 { return None; }
        let counter = u64::from_be_bytes(b[off..off + 8].try_into().unwrap());
        let flag = u32::from_be_bytes(b[off + 8..off + 12].try_into().unwrap());
        let len = u32::from_be_bytes(b[off + 12..off + 16].try_into().unwrap());
        let end = off.checked_add(32)?.checked_add(len as usize)?;
        if end > b.len() { return None; }
        v.push(Record { counter, flag, len_field: len, body: b[off + 16..end].to_vec() });
        off = end;
    }
    Some(v)
}
/// Seal one record explicitly (any counter field, any nonce counter, any flag): used to build
/// non-canonical and malformed-but-authentic inputs.
pub fn seal_record(key: &[u8; 32], aad_prefix: &[u8], counter_field: u64, nonce_ctr: u64, flag: u32, chunk: &[u8]) -> Record {
    let mut aad = aad_prefix.to_vec(); aad.extend_from_slice(&flag.to_be_bytes()); aad.extend_from_slice(&(chunk.len() as u32).to_be_bytes());
    Record { counter: counter_field, flag, len_field: chunk.len() as u32, body: aead_seal(key, &noise_nonce(nonce_ctr), &aad, chunk) }
}
/// Acceptance model with release trace: for each verified record, (ciphertext offset at which the
/// record ends, plaintext length released so far).
#[derive(Debug, Clone, PartialEq)]
pub struct Trace { pub verdict: Verdict, pub ends: Vec<(usize, usize)> }
pub fn decrypt_chunks_trace(b: &[u8], key: &[u8; 32], aad_prefix: &[u8], max: usize) -> Trace {
    let (mut off, mut i, mut out, mut ends) = (0usize, 0u64, Vec::new(), Vec::new());
    loop {
        if b.len() - off < 16 { return Trace { verdict: Verdict::Reject("truncated header"), ends }; }
        let flag = u32::from_be_bytes(b[off + 8..off + 12].try_into().unwrap());
        let len = u32::from_be_bytes(b[off + 12..off + 16].try_into().unwrap()) as usize;
        if len > max { return Trace { verdict: Verdict::Reject("chunk length"), ends }; }
        if b.len() - off - 16 < len + 16 { return Trace { verdict: Verdict::Reject("truncated body"), ends }; }
        let mut aad = aad_prefix.to_vec(); aad.extend_from_slice(&b[off + 8..off + 16]);
        let Some(pt) = aead_open(key, &noise_nonce(i), &aad, &b[off + 16..off + 32 + len]) else { return Trace { verdict: Verdict::Reject("authentication"), ends }; };
        let end = off + 32 + len; out.extend_from_slice(&pt); ends.push((end, out.len()));
        if flag == 1 { return Trace { verdict: if end != b.len() { Verdict::Reject("trailing data") } else { Verdict::Accept(out) }, ends }; }
        off = end; i += 1;
    }
}
#[derive(Debug, Clone, PartialEq)]
pub enum KeyVerdict { Accept { plaintext: Vec<u8>, sender: [u8; 32], payload_key: [u8; 32], file_key: [u8; 32] }, Reject(&'static str) }
pub fn spec_decrypt_key(b: &[u8], r_priv: &[u8; 32]) -> KeyVerdict {
    if b.len() < 4 { return KeyVerdict::Reject("short magic"); }
    if b[..4] != MAGIC_KEY { return KeyVerdict::Reject("magic"); }
    if b.len() < 132 { return KeyVerdict::Reject("short handshake"); }
    let r_pub = x25519_base(r_priv);
    let Some(nr) = noise_x_read(&MAGIC_KEY, r_priv, &r_pub, &b[4..132]) else { return KeyVerdict::Reject("handshake"); };
    if nr.payload.len() != 32 { return KeyVerdict::Reject("payload length"); }
    let pk: [u8; 32] = nr.payload[..].try_into().unwrap();
    let fk: [u8; 32] = hkdf_sha256(&[], &pk, &nr.h, 32).try_into().unwrap();
    match decrypt_chunks(&b[132..], &fk, &[], 65536) {
        Verdict::Accept(p) => KeyVerdict::Accept { plaintext: p, sender: nr.rs, payload_key: pk, file_key: fk },
        Verdict::Reject(w) => KeyVerdict::Reject(w),
    }
}
pub fn spec_decrypt_pass(b: &[u8], pw: &[u8]) -> Verdict {
    if b.len() < 4 { return Verdict::Reject("short magic"); }
    if b[..4] != MAGIC_PASS { return Verdict::Reject("magic"); }
    if b.len() < 36 { return Verdict::Reject("short salt"); }
    let k: [u8; 32] = scrypt(pw, &b[4..36], 32768, 8, 1, 32).try_into().unwrap();
    decrypt_chunks(&b[36..], &k, &MAGIC_PASS, 65536)
}
/// Key-mode header with every degree of freedom exposed (for constructed forgeries):
/// returns (128-byte message, handshake hash, payload key is the caller's).
pub fn key_header(s_priv_used: &[u8; 32], s_pub_claimed: &[u8; 32], rs: &[u8; 32], e_priv_used: &[u8; 32], e_pub_claimed: &[u8; 32], payload_key: &[u8; 32]) -> (Vec<u8>, [u8; 32]) {
    noise_x_write(&MAGIC_KEY, s_priv_used, s_pub_claimed, rs, e_priv_used, e_pub_claimed, payload_key)
}
pub fn file_key(payload_key: &[u8; 32], h: &[u8; 32]) -> [u8; 32] { hkdf_sha256(&[], payload_key, h, 32).try_into().unwrap() }

// ---------------------------------------------------------------- base64 (RFC 4648, strict, canonical), keys, keyring text
pub fn base64_decode(s: &str) -> Option<Vec<u8>> {
    let b = s.as_bytes();
    if b.len() % 4 != 0 { return None; }
    let val = |c: u8| -> Option<u32> { match c { b'A'..=b'Z' => Some((c - b'A') as u32), b'a'..=b'z' => Some((c - b'a') as u32 + 26), b'0'..=b'9' => Some((c - b'0') as u32 + 52), b'+' => Some(62), b'/' => Some(63), _ => None } };
    let mut out = Vec::with_capacity(b.len() / 4 * 3);
    let nq = b.len() / 4;
    for (qi, q) in b.chunks(4).enumerate() {
        let last = qi + 1 == nq;
        let pad = if last { q.iter().rev().take_while(|&&c| c == b'=').count() } else { 0 };
        if pad > 2 { return None; }
        let mut n = 0u32;
        for (i, &c) in q.iter().enumerate() { let v = if i >= 4 - pad { 0 } else { val(c)? }; n = (n << 6) | v; }
        match pad {
            0 => { out.push((n >> 16) as u8); out.push((n >> 8) as u8); out.push(n as u8); }
            1 => { if n & 0xff != 0 { return None; } out.push((n >> 16) as u8); out.push((n >> 8) as u8); }
            _ => { if n & 0xffff != 0 { return None; } out.push((n >> 16) as u8); }
        }
    }
    Some(out)
}
/// Ok(pk) exactly when strict base64 gives 36 bytes whose last 4 are SHA-256(first 32)[..4].
pub fn decode_public_key(s: &str) -> Option<[u8; 32]> {
    let b = base64_decode(s)?; if b.len() != 36 { return None; }
    if sha256(&b[..32])[..4] != b[32..] { return None; }
    Some(b[..32].try_into().unwrap())
}
pub fn unlock_private_key(s: &str, pw: &[u8]) -> Option<[u8; 32]> {
    let b = base64_decode(s)?; if b.len() != 84 || b[..4] != MAGIC_SK { return None; }
    let k: [u8; 32] = scrypt(pw, &b[4..36], 32768, 8, 1, 32).try_into().unwrap();
    aead_open(&k, &[0u8; 12], &MAGIC_SK, &b[36..])?.try_into().ok()
}
/// Locked key with a pre-derived scrypt key (lets a harness pay the KDF once per (pw, salt)).
pub fn lock_private_key_with(k: &[u8; 32], sk: &[u8; 32], salt: &[u8; 32]) -> String {
    let mut blob = MAGIC_SK.to_vec(); blob.extend_from_slice(salt);
    blob.extend_from_slice(&aead_seal(k, &[0u8; 12], &MAGIC_SK, sk));
    base64(&blob)
}
pub fn keyring_entry(name: &str, pk: &str, sk: Option<&str>) -> String {
    match sk { Some(sk) => format!("[Key]\nName = {}\nPublicKey = {}\nPrivateKey = {}\n", name, pk, sk), None => format!("[Key]\nName = {}\nPublicKey = {}\n", name, pk) }
}
pub fn hex(b: &[u8]) -> String { b.iter().map(|x| format!("{:02x}", x)).collect() }
pub fn unhex(s: &str) -> Vec<u8> { let s: String = s.chars().filter(|c| c.is_ascii_hexdigit()).collect(); (0..s.len() / 2).map(|i| u8::from_str_radix(&s[2 * i..2 * i + 2], 16).unwrap()).collect() }

// ---------------------------------------------------------------- self test (RFC vectors); run at the start of every check
pub fn selftest() -> Result<usize, String> {
    let mut n = 0usize;
    let mut ck = |name: &str, a: &[u8], b: &str| -> Result<(), String> { n += 1; if a != &unhex(b)[..] { Err(format!("kspec selftest failed: {}: {} != {}", name, hex(a), b)) } else { Ok(()) } };
    ck("sha256 abc", &sha256(b"abc"), "ba7816bf8f01cfea414140de5dae2223b00361a396177a9cb410ff61f20015ad")?;
    ck("sha256 empty", &sha256(b""), "e3b0c44298fc1c149afbf4c8996fb92427ae41e4649b934ca495991b7852b855")?;
    ck("sha256 448", &sha256(b"abcdbcdecdefdefgefghfghighijhijkijkljklmklmnlmnomnopnopq"), "248d6a61d20638b8e5c026930c3e6039a33ce45964ff2167f6ecedd419db06c1")?;
    ck("sha256 1M a", &sha256(&vec![b'a'; 1_000_000]), "cdc76e5c9914fb9281a1c7e284d73e67f1809a48a497200e046d39ccc7112cd0")?;
    ck("hmac 4231-1", &hmac_sha256(&[0x0b; 20], b"Hi There"), "b0344c61d8db38535ca8afceaf0bf12b881dc200c9833da726e9376c2e32cff7")?;
    ck("hmac 4231-2", &hmac_sha256(b"Jefe", b"what do ya want for nothing?"), "5bdcc146bf60754e6a042426089575c75a003f089d2739839dec58b964ec3843")?;
    ck("hmac 4231-6", &hmac_sha256(&[0xaa; 131], b"Test Using Larger Than Block-Size Key - Hash Key First"), "60e431591ee0b67f0d8a26aacbf5b77f8e0bc6213728c5140546040f0ee37f54")?;
    ck("hkdf 5869-1", &hkdf_sha256(&unhex("000102030405060708090a0b0c"), &[0x0b; 22], &unhex("f0f1f2f3f4f5f6f7f8f9"), 42), "3cb25f25faacd57a90434f64d0362f2a2d2d0a90cf1a5a4c5db02d56ecc4c5bf34007208d5b887185865")?;
    let ikm2: Vec<u8> = (0u8..0x50).collect(); let salt2: Vec<u8> = (0x60u8..0xb0).collect(); let info2: Vec<u8> = (0xb0u8..=0xff).collect();
    ck("hkdf 5869-2", &hkdf_sha256(&salt2, &ikm2, &info2, 82), "b11e398dc80327a1c8e7f78c596a49344f012eda2d4efad8a050cc4c19afa97c59045a99cac7827271cb41c65e590e09da3275600c2f09b8367793a9aca3db71cc30c58179ec3e87c14c01d5c1f3434f1d87")?;
    ck("hkdf 5869-3", &hkdf_sha256(&[], &[0x0b; 22], &[], 42), "8da4e775a563c18f715f802a063c5a31b8a11f5c5ee1879ec3454e5f3c738d2d9d201395faa4b61a96c8")?;
    ck("pbkdf2 7914", &pbkdf2_sha256(b"passwd", b"salt", 1, 64), "55ac046e56e3089fec1691c22544b605f94185216dde0465e68b9d57c20dacbc49ca9cccf179b645991664b39d77ef317c71b845b1e30bd509112041d3a19783")?;
    ck("pbkdf2 7914-2", &pbkdf2_sha256(b"Password", b"NaCl", 80000, 64), "4ddcd8f60b98be21830cee5ef22701f9641a4418d04c0414aeff08876b34ab56a1d425a1225833549adb841b51c9b3176a272bdebba1d078478f62b397f33c8d")?;
    ck("scrypt 7914-1", &scrypt(b"", b"", 16, 1, 1, 64), "77d6576238657b203b19ca42c18a0497f16b4844e3074ae8dfdffa3fede21442fcd0069ded0948f8326a753a0fc81f17e8d3e0fb2e0d3628cf35e20c38d18906")?;
    ck("scrypt 7914-2", &scrypt(b"password", b"NaCl", 1024, 8, 16, 64), "fdbabe1c9d3472007856e7190d01e9fe7c6ad7cbc8237830e77376634b3731622eaf30d92e22a3886ff109279d9830dac727afb94a83ee6d8360cbdfa2cc0640")?;
    ck("scrypt 7914-3", &scrypt(b"pleaseletmein", b"SodiumChloride", 16384, 8, 1, 64), "7023bdcb3afd7348461c06cd81fd38ebfda8fbba904f8e3ea9b543f6545da1f2d5432955613f0fcf62d49705242a9af9e61e85dc0d651e40dfcf017b45575887")?;
    let pk: [u8; 32] = unhex("85d6be7857556d337f4452fe42d506a80103808afb0db2fd4abff6af4149f51b").try_into().unwrap();
    ck("poly1305 8439", &poly1305(&pk, b"Cryptographic Forum Research Group"), "a8061dc1305136c6c22b8baf0c0127a9")?;
    let key: [u8; 32] = unhex("808182838485868788898a8b8c8d8e8f909192939495969798999a9b9c9d9e9f").try_into().unwrap();
    let nonce: [u8; 12] = unhex("070000004041424344454647").try_into().unwrap();
    let ct = aead_seal(&key, &nonce, &unhex("50515253c0c1c2c3c4c5c6c7"), b"Ladies and Gentlemen of the class of '99: If I could offer you only one tip for the future, sunscreen would be it.");
    ck("aead 8439", &ct, "d31a8d34648e60db7b86afbc53ef7ec2a4aded51296e08fea9e2b5a736ee62d63dbea45e8ca9671282fafb69da92728b1a71de0a9e060b2905d6a5b67ecd3b3692ddbd7f2d778b8c9803aee328091b58fab324e4fad675945585808b4831d7bc3ff4def08e4b7a9de576d26586cec64b61161ae10b594f09e26a7e902ecbd0600691")?;
    let k: [u8; 32] = unhex("a546e36bf0527c9d3b16154b82465edd62144c0ac1fc5a18506a2244ba449ac4").try_into().unwrap();
    let u: [u8; 32] = unhex("e6db6867583030db3594c1a424b15f7c726624ec26b3353b10a903a6d0ab1c4c").try_into().unwrap();
    ck("x25519 7748-1", &x25519(&k, &u), "c3da55379de9c6908e94ea4df28d084f32eccf03491c71f754b4075577a28552")?;
    let k2: [u8; 32] = unhex("4b66e9d4d1b4673c5ad22691957d6af5c11b6421e0ea01d42ca4169e7918ba0d").try_into().unwrap();
    let u2: [u8; 32] = unhex("e5210f12786811d3f4b7959d0538ae2c31dbe7106fc03c3efc4cd549c715a493").try_into().unwrap();
    ck("x25519 7748-2", &x25519(&k2, &u2), "95cbde9476e8907d7aade45cb4b873f88b595a68799fa152e6f8f7647aac7957")?;
    let mut kk = [0u8; 32]; kk[0] = 9; let mut uu = kk;
    for _ in 0..1000 { let r = x25519(&kk, &uu); uu = kk; kk = r; }
    ck("x25519 1000", &kk, "684cf59ba83309552800ef566f2f4d3c1c3887c49360e3875f2eb94d99532c51")?;
    let a: [u8; 32] = unhex("77076d0a7318a57d3c16c17251b26645df4c2f87ebc0992ab177fba51db92c2a").try_into().unwrap();
    let b: [u8; 32] = unhex("5dab087e624a8a4b79e17f8b83800ee66f3bb1292618b6fd1c2f8b27ff88e0eb").try_into().unwrap();
    ck("x25519 alice pub", &x25519_base(&a), "8520f0098930a754748b7ddcb43ef75a0dbf3a0d26381af4eba4a98eaa9b4e6a")?;
    ck("x25519 shared", &x25519(&a, &x25519_base(&b)), "4a5d9d5ba4ce2de1728e3bf480350f25e07e21c947d19e3376f09b3c1e161742")?;
    let sp_priv: [u8; 32] = unhex("e61ef9919cde45dd5f82166404bd08e38bceb5dfdfded0a34c8df7ed542214d1").try_into().unwrap();
    let e_priv: [u8; 32] = unhex("893e28b9dc6ca8d611ab664754b8ceb7bac5117349a4439a6b0569da977c464a").try_into().unwrap();
    let rs: [u8; 32] = unhex("31e0303fd6418d2f8c0e78b91f22e8caed0fbe48656dcf4767e4834f701b8f62").try_into().unwrap();
    let (msg, h) = noise_x_write(&unhex("50726f6c6f677565313233"), &sp_priv, &x25519_base(&sp_priv), &rs, &e_priv, &x25519_base(&e_priv), &unhex("4c756477696720766f6e204d69736573"));
    ck("noise X (cacophony)", &msg, "ca35def5ae56cec33dc2036731ab14896bc4c75dbb07a61f879f8e3afa4c79446c15957a594079a5bdeae05d01e089fbb7cc6ea2ecfd209b941f73c9235213bc14ed87a1a4a0b164c11a5999be0f7bf1fdc3aaa6de60cb3c98302f370fdb03ea6fe2cf18324b0812663aed65fc9eafdf")?;
    ck("noise X h", &h, "e5cdeb715c9553e966ccd446aff7f6df1556d0ecda39ddb49ef24c876fe249b7")?;
    ck("base64", base64(b"foobar").as_bytes(), &hex(b"Zm9vYmFy"))?;
    ck("base64 pad", base64(b"fo").as_bytes(), &hex(b"Zm8="))?;
    if base64_decode("Zm8=").as_deref() != Some(&b"fo"[..]) || base64_decode("Zm9=").is_some() || base64_decode("Zm8").is_some() { return Err("kspec selftest failed: base64_decode".into()); }
    Ok(n + 1)
}
