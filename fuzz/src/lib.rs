//! Shared code for the libFuzzer targets: the same scripted I/O, pools, mutation programs and oracle
//! functions that kverif uses, compiled from the same source files.
#![allow(dead_code, clippy::too_many_arguments, clippy::type_complexity)]
#[path = "/repo/src/cli/src/errors.rs"]
pub mod errors;
#[path = "/repo/src/cli/src/keyring.rs"]
pub mod keyring;
#[path = "/repo/src/ffi/src/lib.rs"]
pub mod ffi;
#[path = "../../crates/kverif/src/core.rs"]
pub mod core;
#[path = "../../crates/kverif/src/gen.rs"]
pub mod gen;
#[path = "../../crates/kverif/src/sio.rs"]
pub mod sio;
#[path = "../../crates/kverif/src/kx.rs"]
pub mod kx;
#[path = "../../crates/kverif/src/mutate.rs"]
pub mod mutate;

/// Which property's oracle is active (a campaign runs a target for one property at a time).
pub fn prop() -> String { std::env::var("KFUZZ_PROP").unwrap_or_else(|_| "ALL".into()) }
pub fn on(p: &str) -> bool { let x = prop(); x == "ALL" || x == p }
/// Byte reader for hand-decoding structured inputs.
pub struct Bytes<'a> { pub d: &'a [u8], pub i: usize }
impl<'a> Bytes<'a> {
    pub fn new(d: &'a [u8]) -> Self { Bytes { d, i: 0 } }
    pub fn u8(&mut self) -> u8 { let v = self.d.get(self.i).copied().unwrap_or(0); self.i += 1; v }
    pub fn u16(&mut self) -> u16 { (self.u8() as u16) << 8 | self.u8() as u16 }
    pub fn u32(&mut self) -> u32 { (self.u16() as u32) << 16 | self.u16() as u32 }
    pub fn u64(&mut self) -> u64 { (self.u32() as u64) << 32 | self.u32() as u64 }
    pub fn rest(&mut self) -> &'a [u8] { let r = &self.d[self.i.min(self.d.len())..]; self.i = self.d.len(); r }
    pub fn take(&mut self, n: usize) -> &'a [u8] { let s = self.i.min(self.d.len()); let e = (s + n).min(self.d.len()); self.i = e; &self.d[s..e] }
    pub fn done(&self) -> bool { self.i >= self.d.len() }
}

/// keyring_parse target body (the keyring types are crate-private, so the oracle lives here).
pub fn fuzz_keyring_parse(data: &[u8]) {
    use crate::keyring::Keyring;

    let text = String::from_utf8_lossy(data);
    if let Ok(kr) = Keyring::new(&text) {
        let mut seen_pk: Vec<String> = Vec::new(); let mut seen_names: Vec<String> = Vec::new();
        for line in text.lines() {
            if let Some((_, v)) = line.split_once('=') { let mut name: String = v.to_string(); name.retain(|c| c != '\t'); let name = name.trim();
                if seen_names.iter().any(|n| n == name) { continue; }
                if let Some(k) = kr.get_key(name) {
                    assert!(k.name == name, "C17: lookup returned an entry with another name");
                    assert!(!name.is_empty() && name.len() <= 128, "C17: accepted a name of {} bytes", name.len());
                    assert!(kspec::base64_decode(k.public_key.as_str()).map(|b| b.len() == 36).unwrap_or(false), "C17: accepted entry has a malformed public key");
                    if let Some(s) = &k.private_key { assert!(kspec::base64_decode(s.as_str()).map(|b| b.len() == 84).unwrap_or(false), "C17: accepted entry has a malformed private key"); }
                    assert!(!seen_pk.contains(&k.public_key.as_str().to_string()), "C17: two accepted entries share a public key");
                    assert!(kr.get_name_from_key(&k.public_key).as_deref() == Some(name), "C17: lookup by public key and by name disagree");
                    seen_pk.push(k.public_key.as_str().to_string()); seen_names.push(name.to_string());
                } } }
    }
}
/// encoded_keys target body.
pub fn fuzz_encoded_keys(data: &[u8]) {
    use crate::keyring::{EncodedPk, EncodedSk, Keyring};

    let s = String::from_utf8_lossy(data);
    let want = kspec::decode_public_key(&s);
    let got = match EncodedPk::try_from(&*s) { Err(_) => None, Ok(e) => Keyring::decode_public_key(&e).ok().map(|p| { let a: [u8; 32] = p.as_bytes().try_into().unwrap(); a }) };
    assert!(got == want, "C17: tool and checksum model disagree on public key string {:?}", s);
    if let Ok(e) = EncodedSk::try_from(&*s) {
        let d = kspec::base64_decode(&s); assert!(d.as_ref().map(|d| d.len()) == Some(84), "C15: EncodedSk accepted a string that is not base64 of 84 bytes");
        if d.unwrap()[..4] != kspec::MAGIC_SK { assert!(Keyring::unlock_private_key(&e, b"pw").is_err(), "C15: a blob with a wrong version unlocked"); }
    }
}
