//! C10 — partial reads/writes are harmless; every I/O failure surfaces as an error.
use crate::core::{ok, set_rule, CheckResult, Ctx};
use crate::ensure;
use crate::gen::{self, Plain};
use crate::kx::{self, DecRes, EncRes};
use crate::sio::{read_sizes, FKind, Fault, RSched, Shared, Side, WSched, FKINDS};
use proptest::prelude::*;
use serde::{Deserialize, Serialize};
use std::io::ErrorKind;
use std::rc::Rc;

#[derive(Clone, Copy, Debug, Serialize, Deserialize, PartialEq)]
pub enum Op { KeyEnc, KeyDec, PassEnc, PassDec, HookEnc { cs: u32 }, HookDec { cs: u32 } }
#[derive(Clone, Debug, Serialize, Deserialize)]
pub struct Case { pub op: Op, pub plain: Plain, pub chunks: Vec<usize>, pub rs: RSched, pub ws: WSched, pub fault: Option<Fault>, pub keys: u64 }

enum Res { Enc(EncRes), Dec(DecRes) }
impl Res {
    fn ok(&self) -> bool { match self { Res::Enc(e) => e.is_ok(), Res::Dec(d) => d.is_ok() } }
    fn io_read(&self) -> Option<ErrorKind> { match self { Res::Enc(EncRes::IORead(k)) | Res::Dec(DecRes::IORead(k)) => Some(*k), _ => None } }
    fn io_write(&self) -> Option<ErrorKind> { match self { Res::Enc(EncRes::IOWrite(k)) | Res::Dec(DecRes::IOWrite(k)) => Some(*k), _ => None } }
    fn show(&self) -> String { match self { Res::Enc(e) => format!("{:?}", e), Res::Dec(d) => format!("{:?}", d) } }
}
const PW: &[u8] = b"c10 password";

/// The input presented to the operation (plaintext for encryption, an authentic file for decryption) and the expected fault-free sink.
fn materials(c: &Case) -> Result<(Vec<u8>, [u8; 32]), String> {
    let p = c.plain.bytes();
    let key = gen::key32(c.keys, "c10-chunk-key");
    let lens = { let mut v = Vec::new(); let mut left = p.len(); for &l in &c.chunks { if left == 0 { break; } let l = l.max(1).min(left); v.push(l); left -= l; } if left > 0 { v.push(left); } v };
    let s = kx::ident(c.keys, "S"); let r = kx::ident(c.keys, "R");
    Ok((match c.op {
        Op::KeyEnc | Op::PassEnc | Op::HookEnc { .. } => p,
        Op::KeyDec => kx::key_encrypt_chunked(&p, &lens, &s, &r.pk, &gen::key32(c.keys, "e"), &gen::key32(c.keys, "p"))?,
        Op::PassDec => { let (res, sh) = kx::pass_encrypt(&p, &RSched { gives: lens, then: 0 }, &WSched::all(), None, PW, gen::key32(c.keys, "salt")); if !res.is_ok() { return Err(format!("{:?}", res)); } sh.sink.take() }
        Op::HookDec { cs } => { let lens: Vec<usize> = lens.iter().flat_map(|&l| { let mut v = Vec::new(); let mut l = l; while l > 0 { let x = l.min(cs as usize); v.push(x); l -= x; } v }).collect(); kx::enc_chunks_chunked(&p, &lens, &key, &[], cs)? }
    }, key))
}
fn exec(c: &Case, input: &[u8], key: &[u8; 32], rs: &RSched, ws: &WSched, fault: Option<Fault>) -> (Res, Rc<Shared>) {
    let s = kx::ident(c.keys, "S"); let r = kx::ident(c.keys, "R");
    match c.op {
        Op::KeyEnc => { let (a, b) = kx::key_encrypt(input, rs, ws, fault, &s.sk, &s.pk, &r.pk, Some(&gen::key32(c.keys, "e")), Some(&gen::key32(c.keys, "p"))); (Res::Enc(a), b) }
        Op::PassEnc => { let (a, b) = kx::pass_encrypt(input, rs, ws, fault, PW, gen::key32(c.keys, "salt")); (Res::Enc(a), b) }
        Op::HookEnc { cs } => { let (a, b) = kx::enc_chunks(input, rs, ws, fault, key, &[], cs); (Res::Enc(a), b) }
        Op::KeyDec => { let (a, b) = kx::key_decrypt(input, rs, ws, fault, &r.sk, &r.pk); (Res::Dec(a), b) }
        Op::PassDec => { let (a, b) = kx::pass_decrypt(input, rs, ws, fault, PW); (Res::Dec(a), b) }
        Op::HookDec { cs } => { let (a, b) = kx::dec_chunks(input, rs, ws, fault, key, &[], cs); (Res::Dec(a), b) }
    }
}
fn is_enc(op: Op) -> bool { matches!(op, Op::KeyEnc | Op::PassEnc | Op::HookEnc { .. }) }

/// Calls made by the fault-free run under the case's schedules: (reads, writes, flushes).
pub fn call_counts(c: &Case) -> Result<(usize, usize, usize), String> {
    let (input, key) = materials(c)?; let (_, sh) = exec(c, &input, &key, &c.rs, &c.ws, None);
    Ok((sh.reads.get(), sh.writes.get(), sh.flushes.get()))
}

pub fn check(c: &Case) -> CheckResult {
    let (input, key) = materials(c)?;
    // fault-free reference with the simplest schedules
    let (r0, sh0) = exec(c, &input, &key, &if is_enc(c.op) { c.rs.clone() } else { RSched::full() }, &WSched::all(), None);
    ensure!(r0.ok(), "fault-free run failed: {}", r0.show());
    let ref_sink = sh0.sink.take();
    let (res, sh) = exec(c, &input, &key, &c.rs, &c.ws, c.fault);
    let sink = sh.sink.borrow();
    let fired = sh.fired.get();
    let partial = sh.events.borrow().iter().any(|e| match e { crate::sio::Ev::R { asked, got, .. } => *got > 0 && got < asked, crate::sio::Ev::W { offered, taken, .. } => taken < offered, _ => false });
    // (5) whatever happened, the sink holds a prefix of the fault-free output
    ensure!(sink.len() <= ref_sink.len() && sink[..] == ref_sink[..sink.len()], "sink content is not a prefix of the fault-free output ({} bytes written, fault {:?})", sink.len(), c.fault);
    match (fired, c.fault) {
        (None, _) => {
            // (1)/(6) schedule independence: same result and same output as the reference run
            ensure!(res.ok(), "operation failed although no fault was injected: {} (read schedule {:?}, write schedule {:?})", res.show(), c.rs, c.ws);
            ensure!(sink[..] == ref_sink[..], "output depends on how the sink accepts bytes / how reads are split ({} vs {} bytes)", sink.len(), ref_sink.len());
            if !is_enc(c.op) { ensure!(sink[..] == c.plain.bytes()[..], "decrypted output differs from the plaintext"); }
            else { // ciphertext depends on the read schedule only through the chunking: the real decryptor returns P for it
                let back = match c.op { Op::KeyEnc => { let r = kx::ident(c.keys, "R"); kx::key_decrypt(&sink, &RSched::full(), &WSched::all(), None, &r.sk, &r.pk) } Op::PassEnc => kx::pass_decrypt(&sink, &RSched::full(), &WSched::all(), None, PW), Op::HookEnc { cs } => kx::dec_chunks(&sink, &RSched::full(), &WSched::all(), None, &key, &[], cs), _ => unreachable!() };
                ensure!(back.0.is_ok() && *back.1.sink.borrow() == input, "ciphertext produced under this schedule does not decrypt to the plaintext");
                let _ = read_sizes(&sh);
            }
        }
        (Some(side), Some(f)) => {
            if f.kind == FKind::Interrupted || f.kind == FKind::InterruptedStorm {
                // (3) a transient interruption: either the matching error, or success with exactly the fault-free output
                if res.ok() { ensure!(sink[..] == ref_sink[..], "success after an interrupted call but the output is incomplete ({} of {} bytes)", sink.len(), ref_sink.len()); }
                else { ensure!(if side == Side::Read { res.io_read().is_some() } else { res.io_write().is_some() }, "interrupted {:?} call surfaced as {}", side, res.show()); }
            } else {
                // (2)/(4) the failure must surface, identifying the failing side
                ensure!(!res.ok(), "operation reported success although the {:?} call #{} failed with {:?}", side, f.k, f.kind);
                if side == Side::Read { ensure!(res.io_read().is_some(), "read failure surfaced as {} instead of a read error", res.show()); }
                else { ensure!(res.io_write().is_some(), "{:?} failure ({:?}) surfaced as {} instead of a write error", side, f.kind, res.show()); }
            }
        }
        (Some(_), None) => return Err("harness: fault fired without being scheduled".into()),
    }
    ok(fired.is_some() || partial, format!("{:?}/{}", c.op, match (fired, c.fault) { (Some(s), Some(f)) => format!("{:?}:{:?}", s, f.kind), (None, Some(_)) => "fault-not-reached".into(), _ => if partial { "partial-io".into() } else { "plain-io".to_string() } }).replace(" ", ""))
}

fn op_strategy() -> impl Strategy<Value = Op> {
    prop_oneof![4 => Just(Op::KeyEnc), 4 => Just(Op::KeyDec), 3 => (1u32..5).prop_map(|cs| Op::HookEnc { cs }), 3 => (1u32..5).prop_map(|cs| Op::HookDec { cs })]
}
pub fn strat(ops: BoxedStrategy<Op>, big: bool) -> impl Strategy<Value = Case> {
    let plain = if big { gen::plain_strategy(200_000).boxed() } else { gen::small_plain(60).boxed() };
    (ops, plain, proptest::collection::vec(1usize..30, 0..4), any::<u64>(), 0u32..100).prop_flat_map(move |(op, plain, chunks, keys, x)| {
        let l = plain.len + 200;
        let (rs, ws) = if big { (gen::rsched_coarse(), gen::wsched_coarse()) } else { (gen::rsched_strategy(), gen::wsched_strategy()) };
        (Just(op), Just(plain), Just(chunks), rs, ws, gen::fault_strategy(if big { 30 } else { l.min(300) }).prop_map(move |f| if x < 70 { Some(f) } else { None }), Just(keys))
    }).prop_map(|(op, plain, chunks, rs, ws, fault, keys)| Case { op, plain, chunks, rs, ws, fault, keys })
}

pub fn run(ctx: &Ctx) {
    *ctx.level.lock().unwrap() = "fault_enumeration";
    set_rule("C10", "(operation in {key/pass encrypt, key/pass decrypt, hooked loops cs 1..4}, input, read schedule, write schedule, one fault = (side, k-th call, kind in 7 io::ErrorKinds + zero-length write)). SSE: for small inputs the fault-free run is executed first to count the calls on each side, then EVERY k in 1..=calls+1 x every kind is injected. Oracles: schedule independence; a fired non-transient fault => Err of the failing side; Interrupted => that or Ok with complete output; write returning Ok(0) => write error; sink is a prefix of the fault-free sink; unfired fault => identical to fault-free. Non-trivial = a fault fired or a short read / partial write occurred; distinct by hash of the case / enumeration index");
    ctx.assume("sources and sinks are conforming: a failed call transfers no bytes; after end of input a reader keeps returning 0");
    // SSE: enumerate every fault position for a set of small base cases
    let mut bases: Vec<Case> = Vec::new();
    for (i, op) in [Op::KeyEnc, Op::KeyDec, Op::HookEnc { cs: 2 }, Op::HookDec { cs: 2 }, Op::HookEnc { cs: 4 }, Op::HookDec { cs: 3 }].into_iter().enumerate() {
        for (j, (len, chunks, rs, ws)) in [(10usize, vec![3, 3], RSched::dribble(4), WSched::dribble(7)), (0, vec![], RSched::full(), WSched::all()), (7, vec![7], RSched::full(), WSched::dribble(5)), (12, vec![4, 4, 4], RSched { gives: vec![1, 2, 3], then: 5 }, WSched { accepts: vec![1, 30], then: 9 })].into_iter().enumerate() {
            bases.push(Case { op, plain: Plain { len, seed: ctx.seed.wrapping_add((i * 10 + j) as u64) }, chunks, rs, ws, fault: None, keys: ctx.seed.wrapping_add(i as u64) });
        }
    }
    if !ctx.quick() { for (i, op) in [Op::PassEnc, Op::PassDec].into_iter().enumerate() { bases.push(Case { op, plain: Plain { len: 9, seed: 3 + i as u64 }, chunks: vec![4], rs: RSched::dribble(4), ws: WSched::dribble(9), fault: None, keys: 77 }); } }
    let mut cases = Vec::new();
    for b in &bases {
        let (nr, nw, nf) = call_counts(b).unwrap_or((0, 0, 0));
        for (side, n) in [(Side::Read, nr), (Side::Write, nw), (Side::Flush, nf)] { for k in 1..=n + 1 { for kind in FKINDS { if kind == FKind::ZeroWrite && side != Side::Write { continue; } let mut c = b.clone(); c.fault = Some(Fault { side, k, kind }); cases.push(c); } } }
        cases.push(b.clone());
    }
    // a long unbroken run of EINTR on one call site: an error or (after retrying) the complete result - never a crash
    let mut storms = Vec::new();
    for b in bases.iter().take(8) { let (nr, nw, _) = call_counts(b).unwrap_or((0, 0, 0)); for (side, n) in [(Side::Read, nr), (Side::Write, nw)] { for k in [1usize, 2, n.max(1)] { let mut c = b.clone(); c.fault = Some(Fault { side, k, kind: FKind::InterruptedStorm }); storms.push(c); } } }
    ctx.sse_vec("interrupted_storms", "50 000 consecutive EINTR results at the first, second and last read / write call of 8 base cases", storms, check);
    ctx.sse_vec("fault_positions_sse", &format!("{} base cases (key encrypt/decrypt, hooked loops) x every call index on every side x 8 fault kinds", bases.len()), cases, check);
    // at the command line: a sink that fails (/dev/full, closed pipe) must turn into exit status 1 (shared with C12)
    { use super::c12::{Case as C12, Req, FileKind, SenderPos, Sink, wiring_from};
      let mut v = Vec::new();
      for (i, req) in [Req::KeyEnc, Req::KeyDec(FileKind::Authentic), Req::PassEnc, Req::PassDec(FileKind::Authentic)].into_iter().enumerate() { for sink in [Sink::DevFull, Sink::ClosedPipe] { for len in [1usize, 70_000] { v.push(C12 { req, plain: Plain { len, seed: ctx.seed + i as u64 }, chunks: vec![], pos: SenderPos::First, wirings: vec![wiring_from(0)], sink, sel: ctx.seed, prior_out: None, env_decoy: 0, in_name: 0, typed: false, out_kinds: vec![], in_kinds: vec![], names: 0 }); } } }
      ctx.sse_vec("cli_sink_failures", "encrypt / decrypt / password encrypt / password decrypt x {/dev/full, closed pipe} x {1 B, 70 kB}", v, super::c12::check);
      // the converse: sinks that accept every byte but are not regular files must give the complete result, like a file does
      let mut v = Vec::new();
      for (i, req) in [Req::KeyEnc, Req::KeyDec(FileKind::Authentic), Req::PassEnc, Req::PassDec(FileKind::Authentic)].into_iter().enumerate() { for len in [0usize, 1, 70_000, 200_000] { v.push(C12 { req, plain: Plain { len, seed: ctx.seed + 7 + i as u64 }, chunks: vec![], pos: SenderPos::First, wirings: vec![wiring_from(0)], sink: Sink::Healthy, sel: ctx.seed, prior_out: None, env_decoy: 0, in_name: 0, typed: false, out_kinds: vec![1, 2, 3], in_kinds: vec![1, 2, 3], names: 0 }); } }
      ctx.sse_vec("cli_healthy_sinks_that_are_not_files", "encrypt / decrypt / password encrypt / password decrypt x {-o /dev/stdout bound to a pipe, -o <named pipe with a reader>, -o /dev/null; FILE = named pipe fed in pieces, /dev/stdin bound to a pipe, symbolic link} x {0 B, 1 B, 70 kB, 200 kB}: the complete result, same as from / into a file", v, super::c12::check); }
    ctx.pbt("pbt_small", ctx.n(150_000, 1_500_000), || strat(op_strategy().boxed(), false), check);
    ctx.pbt("pbt_64k_chunks", ctx.n(3_000, 60_000), || strat(prop_oneof![Just(Op::KeyEnc), Just(Op::KeyDec)].boxed(), true), check);
    ctx.pbt("pbt_pass_mode", ctx.n(120, 2_500), || strat(prop_oneof![Just(Op::PassEnc), Just(Op::PassDec)].boxed(), false), check);
}
