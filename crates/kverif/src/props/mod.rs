use crate::core::Ctx;
pub mod c01;
pub mod c02;
pub mod c05;
pub mod c06;
pub mod c07;
pub mod c08;
pub mod c09;
pub mod c10;
pub mod c11;
pub mod c12;
pub mod c13;
pub mod c14;
pub mod c15;
pub mod c16;
pub mod c17;
pub mod c18;
pub mod c19;
pub mod c20;
pub mod c03;
pub mod c04;

pub fn run(ctx: &Ctx) -> bool {
    match ctx.id.as_str() {
        "C01" => c01::run(ctx),
        "C02" => c02::run(ctx),
        "C05" => c05::run(ctx),
        "C06" => c06::run(ctx),
        "C07" => c07::run(ctx),
        "C08" => c08::run(ctx),
        "C09" => c09::run(ctx),
        "C10" => c10::run(ctx),
        "C11" => c11::run(ctx),
        "C12" => c12::run(ctx),
        "C13" => c13::run(ctx),
        "C14" => c14::run(ctx),
        "C15" => c15::run(ctx),
        "C16" => c16::run(ctx),
        "C17" => c17::run(ctx),
        "C18" => c18::run(ctx),
        "C19" => c19::run(ctx),
        "C20" => c20::run(ctx),
        "C03" => c03::run(ctx),
        "C04" => c04::run(ctx),
        _ => return false,
    }
    true
}
pub fn tool(name: &str, args: &[String]) -> i32 {
    match name {
        "gen-golden" => c06::gen_golden(std::path::Path::new(args.first().map(|s| s.as_str()).unwrap_or("/verif/golden"))),
        "gen-corpus" => {
            // seed corpora for the libFuzzer targets (same constructions as the in-target tables)
            let root = std::path::PathBuf::from(args.first().map(|s| s.as_str()).unwrap_or("/verif/corpus"));
            let put = |t: &str, n: &str, d: &[u8]| { let dir = root.join(t); let _ = std::fs::create_dir_all(&dir); std::fs::write(dir.join(n), d).unwrap(); };
            let key = crate::gen::key32(77, "fuzz-chunks-key");
            let shapes: [&[usize]; 6] = [&[], &[5], &[3, 4], &[1, 1, 1], &[10, 20, 30, 5], &[65536, 7]];
            for (i, lens) in shapes.iter().enumerate() { let plain = crate::gen::bytes_from(i as u64, lens.iter().sum()); put("chunks_raw", &format!("stream{}", i), &crate::kx::enc_chunks_chunked(&plain, lens, &key, &[], 65536).unwrap()); }
            for i in 0..12u64 { put("keyfile_mut", &format!("prog{}", i), &crate::gen::bytes_from(i, 4 + (i as usize * 5) % 40)); }
            for i in 0..4u64 { let (s, r) = (crate::kx::ident(i, "fuzz-S"), crate::kx::ident(0, "fuzz-R")); let f = crate::kx::key_encrypt_chunked(b"", &[], &s, &r.pk, &crate::gen::key32(i, "fe"), &crate::gen::key32(i, "fp")).unwrap(); put("noise_msg", &format!("msg{}", i), &f[4..132]); put("noise_msg", &format!("prefix{}", i), &f[4..4 + 40 + 20 * i as usize]); }
            for i in 0..6u64 { let key = crate::gen::key32(i, "k"); let nonce = [i as u8; 12]; let aad = crate::gen::bytes_from(i, (i * 3) as usize); let m = crate::gen::bytes_from(i + 9, (i * 11) as usize); let mut d = key.to_vec(); d.extend_from_slice(&nonce); d.push(aad.len() as u8); d.extend_from_slice(&aad); d.extend_from_slice(&kspec::aead_seal(&key, &nonce, &aad, &m)); put("aead_open", &format!("valid{}", i), &d); }
            put("keyring_parse", "repo", &std::fs::read("/verif/golden/repo/keyring.txt").unwrap_or_default());
            put("keyring_parse", "tabs", b"\t[Key]\n\tName\t=\tx\n PublicKey = AAAA\n# c\n\n[Key]\nName = y\r\n");
            let pk = kspec::encode_public_key(&kspec::x25519_base(&[3u8; 32])); let skl = kspec::lock_private_key_with(&[1u8; 32], &[2u8; 32], &[3u8; 32]);
            put("keyring_parse", "two", format!("[Key]\nName = a\nPublicKey = {}\nPrivateKey = {}\n\n[Key]\nName = b\nPublicKey = {}\n", pk, skl, kspec::encode_public_key(&kspec::x25519_base(&[4u8; 32]))).as_bytes());
            put("encoded_keys", "pk", pk.as_bytes()); put("encoded_keys", "sk", skl.as_bytes()); put("encoded_keys", "pk-bad-checksum", kspec::base64(&[7u8; 36]).as_bytes()); put("encoded_keys", "sk-bad-version", kspec::base64(&[7u8; 84]).as_bytes());
            for i in 0..5u8 { put("scrypt_ffi", &format!("p{}", i), &[i, i + 1, i, 30 + i, 3, b'p', b'w', b'!', b's', b'a', b'l', b't']); }
            println!("seed corpora written to {}", root.display()); 0
        }
        "oracle-dump" => {
            // inputs and kspec outputs as JSON lines, for tools/oracle_audit.py (OpenSSL)
            let n: u64 = args.first().and_then(|s| s.parse().ok()).unwrap_or(200); let seed: u64 = args.get(1).and_then(|s| s.parse().ok()).unwrap_or(1);
            let hx = kspec::hex; let b = crate::gen::bytes_from;
            for i in 0..n {
                let s = seed.wrapping_mul(1_000_003).wrapping_add(i);
                let l = |k: u64, m: usize| -> usize { (crate::gen::bytes_from(s ^ k, 2)[0] as usize * 256 + crate::gen::bytes_from(s ^ k, 2)[1] as usize) % m };
                let d = b(s, l(1, 700)); println!("{}", serde_json::json!({"prim": "sha256", "in": {"data": hx(&d)}, "out": hx(&kspec::sha256(&d))}));
                let k = b(s ^ 2, l(2, 200)); println!("{}", serde_json::json!({"prim": "hmac", "in": {"key": hx(&k), "data": hx(&d)}, "out": hx(&kspec::hmac_sha256(&k, &d))}));
                let (salt, info, ol) = (b(s ^ 3, l(3, 100)), b(s ^ 4, l(4, 100)), 1 + l(5, if i % 20 == 0 { 8160 } else { 200 }));
                println!("{}", serde_json::json!({"prim": "hkdf", "in": {"salt": hx(&salt), "ikm": hx(&k), "info": hx(&info), "len": ol}, "out": hx(&kspec::hkdf_sha256(&salt, &k, &info, ol))}));
                let (iters, pl) = (1 + l(6, 5) as u32, 1 + l(7, 100)); println!("{}", serde_json::json!({"prim": "pbkdf2", "in": {"pw": hx(&k), "salt": hx(&salt), "iters": iters, "len": pl}, "out": hx(&kspec::pbkdf2_sha256(&k, &salt, iters, pl))}));
                let (ln, r, p, dk) = (1 + l(8, 8) as u32, 1 + l(9, 6), 1 + l(10, 4), 1 + l(11, 100));
                println!("{}", serde_json::json!({"prim": "scrypt", "in": {"pw": hx(&k), "salt": hx(&salt), "n": 1u32 << ln, "r": r, "p": p, "len": dk}, "out": hx(&kspec::scrypt(&k, &salt, 1usize << ln, r, p, dk))}));
                let key = crate::gen::key32(s, "oa-k"); let nonce: [u8; 12] = b(s ^ 12, 12).try_into().unwrap(); let aad = b(s ^ 13, l(13, 60)); let pt = b(s ^ 14, l(14, 400));
                let ct = kspec::aead_seal(&key, &nonce, &aad, &pt);
                println!("{}", serde_json::json!({"prim": "aead_seal", "in": {"key": hx(&key), "nonce": hx(&nonce), "aad": hx(&aad), "pt": hx(&pt)}, "out": hx(&ct)}));
                let mut ct2 = ct.clone(); if i % 2 == 0 && !ct2.is_empty() { let j = l(15, ct2.len()); ct2[j] ^= 1 << (i % 8); } if i % 7 == 0 { ct2.truncate(l(16, 20)); }
                let o = kspec::aead_open(&key, &nonce, &aad, &ct2); let mut ov = vec![if o.is_some() { 1u8 } else { 0 }]; if let Some(x) = o { ov.extend_from_slice(&x); }
                println!("{}", serde_json::json!({"prim": "aead_open", "in": {"key": hx(&key), "nonce": hx(&nonce), "aad": hx(&aad), "ct": hx(&ct2)}, "out": hx(&ov)}));
                let sk = crate::gen::key32(s, "oa-sk"); let mut u = crate::gen::key32(s, "oa-u"); if i % 5 == 0 { u[31] |= 0x80; } if i % 11 == 0 { let lo = crate::gen::low_order_points(); u = lo[(i as usize) % lo.len()]; }
                println!("{}", serde_json::json!({"prim": "x25519", "in": {"k": hx(&sk), "u": hx(&u)}, "out": hx(&kspec::x25519(&sk, &u))}));
                println!("{}", serde_json::json!({"prim": "x25519_base", "in": {"k": hx(&sk)}, "out": hx(&kspec::x25519_base(&sk))}));
            }
            0
        }
        "bench-cli" => {
            let n = 500; let t = std::time::Instant::now();
            for _ in 0..n { let sb = crate::cli::Sandbox::new(); sb.write("a", b"x"); sb.write("b", b"y"); sb.write("c", b"z"); }
            println!("sandbox+3 files: {:?} each", t.elapsed() / n);
            let sb = crate::cli::Sandbox::new(); let t = std::time::Instant::now();
            for _ in 0..n { let r = sb.cmd(&["-v"]).run(); assert_eq!(r.code, Some(0)); }
            println!("run -v: {:?} each", t.elapsed() / n);
            let t = std::time::Instant::now();
            for _ in 0..n { let o = std::process::Command::new(crate::cli::kestrel_bin()).arg("-v").output().unwrap(); assert!(o.status.success()); }
            println!("plain Command::output -v: {:?} each", t.elapsed() / n);
            0
        }
        _ => { eprintln!("unknown tool {}", name); 2 }
    }
}
