//! C09 — untrusted bytes never crash: errors only, bounded work.
use crate::alloc;
use crate::cli::{self, Sandbox};
use crate::core::{ok, set_rule, CheckResult, Ctx};
use crate::ensure;
use crate::gen;
use crate::keyring::{EncodedPk, EncodedSk, Keyring};
use crate::kx;
use crate::mutate::{self, MCase, Mutant, PoolSel};
use crate::sio::{RSched, WSched};
use kestrel_crypto as kc;
use proptest::prelude::*;
use serde::{Deserialize, Serialize};
use std::ffi::OsString;
use std::os::unix::ffi::OsStringExt;

#[derive(Clone, Debug, Serialize, Deserialize)]
pub enum Fill { Zeros, Ones, Random(u64), PrefixOfAuthentic, AuthenticPlusExtension(u64) }
#[derive(Clone, Debug, Serialize, Deserialize)]
pub enum Case {
    File { len: usize, fill: Fill, via: u8 },
    Handshake { len: usize, fill: Fill },
    Aead { len: usize, fill: Fill, aad_len: usize },
    KeyString { s: String },
    HostileHeader { mode_pass: bool, len_field: u32, flag: u32, body: usize, keep_records: usize },
    /// a complete authentic stream followed by `tail` further bytes
    HostileTail { mode_pass: bool, tail: usize },
    /// a stream sealed by a non-conforming (but key-holding) writer: valid tags, flag values other than 0 and 1
    ForgedFlag { flag: u32, at: u8, mode_pass: bool },
}

fn authentic_key_file() -> Vec<u8> { let (s, r) = (kx::ident(9, "S"), kx::ident(9, "R")); kx::key_encrypt_chunked(&gen::bytes_from(9, 300), &[100, 100, 100], &s, &r.pk, &gen::key32(9, "e"), &gen::key32(9, "p")).unwrap() }
fn fill(f: &Fill, len: usize, authentic: &[u8]) -> Vec<u8> {
    match f { Fill::Zeros => vec![0; len], Fill::Ones => vec![0xff; len], Fill::Random(s) => gen::bytes_from(*s, len),
        Fill::PrefixOfAuthentic => { let mut v = authentic[..len.min(authentic.len())].to_vec(); v.resize(len, 0x41); v }
        Fill::AuthenticPlusExtension(s) => { let mut v = authentic.to_vec(); v.extend_from_slice(&gen::bytes_from(*s, len)); v } }
}

pub fn check(c: &Case) -> CheckResult {
    // every call below runs under the engine's catch_unwind: a panic is reported with its message and location
    match c {
        Case::File { len, fill: fl, via } => {
            let auth = authentic_key_file(); let data = fill(fl, *len, &auth); let r = kx::ident(9, "R");
            let accepted = match via % 3 {
                0 => kx::key_decrypt(&data, &RSched::full(), &WSched::all(), None, &r.sk, &r.pk).0.is_ok(),
                1 => kx::dec_chunks(&data, &RSched::dribble(7), &WSched::all(), None, &gen::key32(1, "k"), &[], 65536).0.is_ok(),
                _ => { let mut d = kspec::MAGIC_PASS.to_vec(); d.extend_from_slice(&data); kx::dec_chunks(&d[4.min(d.len())..], &RSched::full(), &WSched::all(), None, &gen::key32(1, "k"), &kspec::MAGIC_PASS, 65536).0.is_ok() }
            };
            ok(*len > 0 && !accepted, format!("file/{}", if accepted { "accepted" } else { "rejected" }))
        }
        Case::Handshake { len, fill: fl } => {
            let r = kx::ident(9, "R"); let auth = authentic_key_file();
            let msg = fill(fl, *len, &auth[4..132]);
            let res = kc::noise_decrypt(&kx::sk(&r.sk), &kx::pk(&r.pk), &kspec::MAGIC_KEY, &msg);
            ok(msg.len() != 128 || res.is_err(), format!("handshake/{}", match msg.len() { 0..=63 => "<64", 64..=79 => "64..79", 80..=95 => "80..95", 96..=127 => "96..127", 128 => "=128", 129..=65535 => "129..65535", _ => ">65535" }))
        }
        Case::Aead { len, fill: fl, aad_len } => {
            let key = gen::key32(5, "aead"); let nonce = [7u8; 12]; let aad = gen::bytes_from(3, *aad_len);
            let valid = kc::chapoly_encrypt_ietf(&key, &nonce, &gen::bytes_from(4, 40), &aad);
            let ct = fill(fl, *len, &valid);
            let res = kc::chapoly_decrypt_ietf(&key, &nonce, &ct, &aad);
            if ct != valid { ensure!(res.is_err(), "AEAD open accepted a {}-byte input that is not the sealed message", ct.len()); }
            ok(ct != valid, format!("aead/{}", if ct.len() < 16 { "<16" } else { ">=16" }))
        }
        Case::KeyString { s } => {
            if let Ok(e) = EncodedPk::try_from(s.as_str()) { let _ = Keyring::decode_public_key(&e); }
            if let Ok(e) = EncodedSk::try_from(s.as_str()) { if kspec::base64_decode(s).map(|b| b[..4] != kspec::MAGIC_SK).unwrap_or(true) { let _ = Keyring::unlock_private_key(&e, b"pw"); } }
            let _ = Keyring::new(s); let _ = Keyring::new(&format!("[Key]\nName = x\nPublicKey = {}\nPrivateKey = {}\n", s, s));
            ok(!s.is_empty(), format!("keystring/len{}", match s.len() { 0 => "0", 1..=47 => "<48", 48 => "=48", 49..=111 => "<112", 112 => "=112", _ => ">112" }))
        }
        Case::HostileHeader { mode_pass, len_field, flag, body, keep_records } => {
            // an authentic multi-chunk stream, cut after `keep_records` records, followed by a record header with hostile fields
            let (key, aad): ([u8; 32], Vec<u8>) = (gen::key32(2, "hh"), if *mode_pass { kspec::MAGIC_PASS.to_vec() } else { vec![] });
            let plain = gen::bytes_from(2, 3 * 65536 + 100);
            let honest = kx::enc_chunks_chunked(&plain, &[65536, 65536, 65536, 100], &key, &aad, 65536)?;
            let measure = |data: &[u8]| -> (bool, isize, usize, usize) { alloc::reset(1 << 20); let base = alloc::live(); let (res, sh) = kx::dec_chunks(data, &RSched::full(), &WSched::all(), None, &key, &aad, 65536); let _ = sh.sink.borrow().len(); (res.is_ok(), alloc::peak() - base, alloc::largest(), sh.src_off.get()) };
            let (hok, hpeak, hlargest, _) = measure(&honest); ensure!(hok, "honest stream rejected");
            let keep = keep_records % 4; let cut = keep * (65536 + 32);
            let mut hostile = honest[..cut].to_vec(); hostile.extend_from_slice(&(keep as u64).to_be_bytes()); hostile.extend_from_slice(&flag.to_be_bytes()); hostile.extend_from_slice(&len_field.to_be_bytes()); hostile.extend_from_slice(&gen::bytes_from(*len_field as u64, *body));
            let (aok, peak, largest, pulled) = measure(&hostile);
            ensure!(!aok, "a stream with a forged record was accepted");
            // the sink Vec holds what was released: subtract nothing, compare with the honest run which releases more
            ensure!(peak <= hpeak + 65536, "rejecting a hostile length field ({}) used {} bytes of heap, an honest 4-chunk stream uses {}", len_field, peak, hpeak);
            ensure!(largest <= hlargest + 65536, "a hostile length field ({}) caused a single allocation of {} bytes (honest maximum {})", len_field, largest, hlargest);
            ensure!(pulled <= cut + 16 + 65536 + 16, "after the last verified record {} further bytes were pulled from the source (bound {})", pulled - cut, 16 + 65536 + 16);
            ok(true, format!("hostile-len/{}", if *len_field > 65536 { ">cs" } else { "<=cs" }))
        }
        Case::ForgedFlag { flag, at, mode_pass } => {
            let (key, aad): ([u8; 32], Vec<u8>) = (gen::key32(6, "ff"), if *mode_pass { kspec::MAGIC_PASS.to_vec() } else { vec![] });
            let chunks: [&[u8]; 3] = [b"first", b"second chunk", b"third"]; let mut data = Vec::new();
            for (i, ch) in chunks.iter().enumerate() { let fl = if i == *at as usize % 3 { *flag } else if i == 2 { 1 } else { 0 }; data.extend_from_slice(&kspec::seal_record(&key, &aad, i as u64, i as u64, fl, ch).to_bytes()); }
            // what a decryptor does with such a flag is not specified; that it returns is
            let (res, _sh) = kx::dec_chunks(&data, &RSched::dribble(5), &WSched::all(), None, &key, &aad, 65536);
            ok(true, format!("forged-flag/{}", if res.is_ok() { "accepted" } else { "rejected" }))
        }
        Case::HostileTail { mode_pass, tail } => {
            let (key, aad): ([u8; 32], Vec<u8>) = (gen::key32(4, "ht"), if *mode_pass { kspec::MAGIC_PASS.to_vec() } else { vec![] });
            let plain = gen::bytes_from(4, 65536 + 50);
            let honest = kx::enc_chunks_chunked(&plain, &[65536, 50], &key, &aad, 65536)?;
            let mut hostile = honest.clone(); hostile.resize(honest.len() + tail, 0x41);
            let measure = |data: &[u8]| -> (bool, isize, usize, usize) { alloc::reset(1 << 20); let base = alloc::live(); let (res, sh) = kx::dec_chunks(data, &RSched::full(), &WSched::all(), None, &key, &aad, 65536); (res.is_ok(), alloc::peak() - base, alloc::largest(), sh.src_off.get()) };
            let (hok, hpeak, hlargest, _) = measure(&honest); ensure!(hok, "honest stream rejected");
            let (aok, peak, largest, pulled) = measure(&hostile);
            ensure!(!aok, "a stream followed by {} extra bytes was accepted", tail);
            ensure!(peak <= hpeak + 65536 && largest <= hlargest + 65536, "rejecting {} bytes of trailing data used {} bytes of heap (largest allocation {}), the honest stream needs {} (largest {})", tail, peak, largest, hpeak, hlargest);
            ensure!(pulled <= honest.len() + 16 + 65536 + 16, "{} bytes were pulled from the source after the final chunk had verified (bound {})", pulled - honest.len(), 16 + 65536 + 16);
            ok(true, "hostile-tail")
        }
    }
}

/// Password mode: a hostile header must cost exactly one key derivation, like an honest file.
#[derive(Clone, Debug, Serialize, Deserialize)]
pub struct PassCost { pub len_field: u32, pub salt: u64, pub body: usize }
pub fn check_pass_cost(c: &PassCost) -> CheckResult {
    let run = |data: &[u8]| { alloc::reset(16 << 20); let base = alloc::live(); let (res, _sh) = kx::pass_decrypt(data, &RSched::full(), &WSched::all(), None, b"pw"); (res.is_ok(), alloc::big_count(), alloc::peak() - base) };
    let (res, sh) = kx::pass_encrypt(b"hello", &RSched::full(), &WSched::all(), None, b"pw", gen::key32(1, "s")); ensure!(res.is_ok(), "setup");
    let honest = sh.sink.take(); let (hok, hbig, hpeak) = run(&honest); ensure!(hok, "honest password file rejected");
    let mut h = kspec::MAGIC_PASS.to_vec(); h.extend_from_slice(&gen::key32(c.salt, "hs")); h.extend_from_slice(&0u64.to_be_bytes()); h.extend_from_slice(&1u32.to_be_bytes()); h.extend_from_slice(&c.len_field.to_be_bytes()); h.extend_from_slice(&gen::bytes_from(c.salt, c.body));
    let (aok, big, peak) = run(&h);
    ensure!(!aok, "forged password file accepted");
    // the constant is one derivation with the documented parameters (128 * N * r = 32 MiB of working memory); an honest file
    // may cost less than that (an implementation may remember a derivation it has just done), never more
    let one_kdf: isize = 128 * 32768 * 8 + (1 << 20);
    ensure!(big <= hbig.max(1), "rejecting a forged password file made {} scrypt-sized (>= 16 MiB) allocations, an honest file makes {}", big, hbig);
    ensure!(peak <= hpeak.max(one_kdf) + 65536, "rejecting a forged password file used {} bytes of heap, an honest one {} (one derivation: {})", peak, hpeak, one_kdf);
    ok(true, "pass-header-cost")
}

// ---- argv
pub const VOCAB: usize = 30;
pub fn token(i: usize) -> OsString {
    let t: [&str; 29] = ["encrypt", "enc", "decrypt", "dec", "key", "generate", "gen", "change-pass", "extract-pub", "password", "pass", "-t", "--to", "-f", "--from", "-o", "--output", "-k", "--keyring", "--env-pass", "-h", "--help", "-v", "--version", "--", "-", "", "file.txt", "--to=bob"];
    if i % VOCAB < 29 { OsString::from(t[i % VOCAB]) } else { OsString::from_vec(vec![0x66, 0xff, 0xfe]) }
}
#[derive(Clone, Debug, Serialize, Deserialize)]
pub struct Argv { pub toks: Vec<usize>, pub env_keyring: u8 }
pub fn check_argv(a: &Argv) -> CheckResult {
    let id = super::c13::ids(); let sb = Sandbox::new();
    sb.write("file.txt", b"some file content"); sb.write("keys.txt", cli::keyring_text(&[(&id.alice, true), (&id.bob, false)]).as_bytes()); sb.write("garbage.txt", &[0xff, 0x00, 0x5b]);
    let mut cmd = sb.cmd(&[]); cmd.args = a.toks.iter().map(|&i| token(i)).collect(); cmd.timeout_ms = 20_000;
    cmd.env.push(("KESTREL_PASSWORD".into(), "not the password".into()));
    match a.env_keyring % 4 { 0 => cmd.env.push(("KESTREL_KEYRING".into(), "keys.txt".into())), 1 => cmd.env.push(("KESTREL_KEYRING".into(), "garbage.txt".into())), 2 => cmd.env.push(("KESTREL_KEYRING".into(), "missing.txt".into())), _ => {} }
    let r = cmd.run();
    ensure!(!r.timed_out, "the tool did not terminate for argv {:?}", cmd.args);
    ensure!(r.signal.is_none(), "the tool was killed by signal {:?} for argv {:?}: {}", r.signal, cmd.args, r.stderr_s());
    ensure!(matches!(r.code, Some(0) | Some(1)), "exit status {:?} for argv {:?} (stderr: {})", r.code, cmd.args, r.stderr_s().chars().take(300).collect::<String>());
    if r.code == Some(1) { ensure!(r.stderr_s().lines().any(|l| l.starts_with("Error:")), "exit status 1 without an 'Error:' line for argv {:?}: {:?}", cmd.args, r.stderr_s()); }
    ok(!a.toks.is_empty(), format!("argv/len{}/exit{}", a.toks.len().min(4), r.code.unwrap_or(-1)))
}
pub fn argv_from_index(mut i: usize) -> Argv {
    let env_keyring = (i % 2) as u8 * 3; i /= 2; // keyring variable valid / unset
    let mut len = 0; let mut block = 1usize; while i >= block { i -= block; len += 1; block *= VOCAB; }
    let mut toks = Vec::new(); for _ in 0..len { toks.push(i % VOCAB); i /= VOCAB; } toks.reverse();
    Argv { toks, env_keyring }
}

/// Untrusted strings in the places a path is expected (keyring location by option or variable, input FILE, -o target)
/// on an otherwise complete command line, under a sparse or odd environment (HOME unset / empty / not UTF-8 / valid).
#[derive(Clone, Debug, Serialize, Deserialize)]
pub struct Loc { pub loc: Vec<u8>, pub place: u8, pub home: u8, pub cmd: u8 }
pub fn loc_dictionary() -> Vec<Vec<u8>> {
    let mut v: Vec<Vec<u8>> = ["~", "~/keys.txt", "~/", "~root/keys.txt", "~nobody", "$HOME/keys.txt", "", ".", "..", "/", "//", "keys.txt/", "./keys.txt", "dir", "dir/", "/dev/null", "/dev/zero", "/dev/full", "/proc/self/mem", "/proc/self/environ", "/dev/stdin", "-", "--", "%s%n", "keys.txt\u{0}", "file:///keys.txt", "C:\\keys.txt", "*", "?", "{a,b}", "`id`", "$(id)", " keys.txt", "keys.txt ", "é/ü.txt", "\u{202e}txt.syek"].iter().map(|s| s.replace("\u{0}", "").as_bytes().to_vec()).collect();
    v.push(vec![0xff, 0xfe, b'/', b'k']); v.push(vec![b'~', b'/', 0xff]); v.push("a/".repeat(2100).into_bytes()); v.push("k".repeat(300).into_bytes()); v.push(vec![b'~'; 5000]);
    v
}
pub fn check_loc(l: &Loc) -> CheckResult {
    use std::os::unix::ffi::OsStringExt;
    let id = super::c13::ids(); let sb = Sandbox::new();
    sb.write("file.txt", b"some file content"); sb.write("keys.txt", cli::keyring_text(&[(&id.alice, true), (&id.bob, true)]).as_bytes()); let _ = std::fs::create_dir(sb.path("dir")); let _ = std::fs::create_dir(sb.path("home")); sb.write("home/keys.txt", cli::keyring_text(&[(&id.alice, true), (&id.bob, true)]).as_bytes());
    let ct = crate::kx::key_encrypt_simple(b"some file content", &crate::kx::Ident { sk: id.alice.sk, pk: id.alice.pk }, &id.bob.pk, None, None)?; sb.write("file.ktl", &ct);
    let loc = OsString::from_vec(l.loc.clone());
    let decrypt = l.cmd % 2 == 1;
    let mut a: Vec<OsString> = if decrypt { cli::args(&["decrypt", "-t", "bob", "--env-pass"]) } else { cli::args(&["encrypt", "-t", "bob", "-f", "alice", "--env-pass"]) };
    let (mut file, mut out, mut kr): (OsString, OsString, Option<OsString>) = (if decrypt { "file.ktl".into() } else { "file.txt".into() }, "out.bin".into(), Some("keys.txt".into()));
    let mut env_kr: Option<OsString> = None;
    match l.place % 4 { 0 => kr = Some(loc.clone()), 1 => { kr = None; env_kr = Some(loc.clone()); } 2 => file = loc.clone(), _ => out = loc.clone() }
    a.push(file); a.push("-o".into()); a.push(out); if let Some(k) = kr { a.push("-k".into()); a.push(k); }
    let mut cmd = sb.cmd(&[]); cmd.args = a; cmd.timeout_ms = 20_000; cmd.stdin = crate::cli::In::Bytes(b"stdin data".to_vec());
    cmd.env.push(("KESTREL_PASSWORD".into(), if decrypt { id.bob.password.clone() } else { id.alice.password.clone() }));
    if let Some(k) = env_kr { if !l.loc.contains(&0) { cmd.env_os.push(("KESTREL_KEYRING".into(), k.into_vec())); } }
    match l.home % 4 { 1 => cmd.env.push(("HOME".into(), sb.path("home").to_string_lossy().into_owned())), 2 => cmd.env_os.push(("HOME".into(), vec![b'/', 0xff, 0xfe])), 3 => cmd.env.push(("HOME".into(), String::new())), _ => {} }
    // an endless input would only fill the scratch file system until the timeout
    // endless devices as something to READ are not byte strings: the statement quantifies over finite inputs
    if l.loc.contains(&0) || (l.place % 4 != 3 && (l.loc.ends_with(b"/dev/zero") || l.loc.ends_with(b"/dev/full") || l.loc.ends_with(b"random"))) { return ok(false, "skipped"); }
    let r = cmd.run();
    ensure!(!r.timed_out, "the tool did not terminate for argv {:?} (HOME variant {})", cmd.args, l.home % 4);
    ensure!(r.signal.is_none() && matches!(r.code, Some(0) | Some(1)), "the tool ended abnormally (exit {:?}, signal {:?}) for argv {:?} with HOME {}: {}", r.code, r.signal, cmd.args, ["unset", "valid", "not UTF-8", "empty"][(l.home % 4) as usize], r.stderr_s().chars().take(300).collect::<String>());
    if r.code == Some(1) { ensure!(r.stderr_s().lines().any(|x| x.starts_with("Error:")), "exit status 1 without an 'Error:' line for argv {:?}: {:?}", cmd.args, r.stderr_s()); }
    ok(true, format!("location/{}/exit{}", ["-k", "KESTREL_KEYRING", "FILE", "-o"][(l.place % 4) as usize], r.code.unwrap_or(-1)))
}

#[derive(Clone, Debug, Serialize, Deserialize)]
pub struct KeyArg { pub s: String, pub cmd: u8 }
pub fn check_keyarg(k: &KeyArg) -> CheckResult {
    let id = super::c13::ids(); let sb = Sandbox::new();
    let mut runs = Vec::new();
    let sub = if k.cmd % 2 == 0 { "extract-pub" } else { "change-pass" };
    if !k.s.starts_with('-') && !k.s.is_empty() { runs.push(sb.cmd(&["key", sub, &k.s, "--env-pass"]).env("KESTREL_PASSWORD", "wrong").env("KESTREL_NEW_PASSWORD", "new").run()); }
    if !k.s.contains('\n') && !k.s.contains('\r') {
        sb.write("k.txt", format!("[Key]\nName = bob\nPublicKey = {}\nPrivateKey = {}\n", id.bob.epk, k.s).as_bytes()); sb.write("in.ktl", &gen::bytes_from(1, 200));
        runs.push(sb.cmd(&["decrypt", "in.ktl", "-t", "bob", "-o", "out", "-k", "k.txt", "--env-pass"]).env("KESTREL_PASSWORD", "wrong").run());
    }
    for r in &runs {
        ensure!(!r.timed_out && r.signal.is_none() && matches!(r.code, Some(0) | Some(1)), "the tool ended abnormally for key string {:?}: {}", k.s, r.describe());
        if r.code == Some(1) { ensure!(r.stderr_s().lines().any(|l| l.starts_with("Error:")), "exit status 1 without an 'Error:' line: {:?}", r.stderr_s()); }
    }
    ok(!k.s.is_empty(), format!("cli-key-arg/{}", sub))
}

pub fn check_mutant(c: &MCase) -> CheckResult { let (p, _f, res, _sh, _) = mutate::present(c); ok(!res.is_ok(), format!("mutant/{}", mutate::classify(&p, &c.m))) }
#[derive(Clone, Debug, Serialize, Deserialize)]
pub struct Text { pub t: String }

pub fn run(ctx: &Ctx) {
    set_rule("C09", "per surface: encrypted file -> key_decrypt / chunk loop (every length 0..600 of zeros, 0xFF, random, prefixes of an authentic file; the C03 mutation programs; hostile length/flag fields after 0..3 authentic 64 KiB records); handshake message -> noise_decrypt (every length 0..300 and 65535/65536/70000 of random bytes, authentic prefixes, authentic message + extension); AEAD ciphertext -> chapoly_decrypt_ietf (every length 0..200); encoded keys -> EncodedPk/EncodedSk::try_from, decode_public_key, unlock_private_key (every length 0..130 over several alphabets, near-valid strings); keyring text -> Keyring::new; argument vectors -> the binary (every sequence of <= 3 tokens over a 30-token vocabulary incl. empty and non-UTF-8 arguments, random sequences up to 8; hostile strings wherever a path is expected, under HOME unset / valid / not UTF-8 / empty). Oracles: every call returns (a panic is caught and reported with message and location); the binary exits 0 or 1 without a signal, 1 with an 'Error:' line; hostile header fields raise neither peak heap, nor the largest allocation, nor the bytes pulled from the source, nor the number of scrypt-sized allocations above the honest case + 64 KiB. Non-trivial = input neither empty nor fully valid for its surface; distinct by enumeration index / hash of the case");
    ctx.assume("documented caller preconditions are respected (32-byte keys, 12-byte nonces, N a power of two): violating them is a caller bug, not untrusted input; failure of the output device of the text-printing commands is outside the quantifier");
    let _ = super::c13::ids();
    let fills = |i: usize, s: u64| match i { 0 => Fill::Zeros, 1 => Fill::Ones, 2 => Fill::Random(s), _ => Fill::PrefixOfAuthentic };
    ctx.sse("aead_lengths", "every ciphertext length 0..=200 x 4 fills x aad length {0, 9}", 201 * 4 * 2, |i| Case::Aead { len: i / 8, fill: fills(i % 4, i as u64), aad_len: if (i / 4) % 2 == 0 { 0 } else { 9 } }, check);
    let hl: Vec<usize> = (0..=300).chain([65535, 65536, 70000]).collect();
    ctx.sse("handshake_lengths", "every message length 0..=300 and 65535, 65536, 70000 x {zeros, 0xFF, random, authentic prefix, authentic + extension}", hl.len() * 5, |i| { let len = hl[i / 5]; Case::Handshake { len, fill: if i % 5 == 4 { Fill::AuthenticPlusExtension(i as u64) } else { fills(i % 5, i as u64) } } }, check);
    ctx.sse("file_lengths", "every file length 0..=600 x 4 fills x {key_decrypt, chunk loop, chunk loop with password AAD}", 601 * 4 * 3, |i| Case::File { len: i / 12, fill: fills(i % 4, ctx.seed ^ i as u64), via: ((i / 4) % 3) as u8 }, check);
    let alph: [&str; 6] = ["A", "ZWdrMA+/", "=", "é\u{1F600}\t ", "-_", "AAAA"];
    ctx.sse("key_string_lengths", "every string length 0..=130 over 6 alphabets", 131 * 6, |i| { let cs: Vec<char> = alph[i % 6].chars().collect(); Case::KeyString { s: (0..i / 6).map(|k| cs[(k * 5 + i) % cs.len()]).collect() } }, check);
    let mut hh = Vec::new();
    for mode_pass in [false, true] { for keep in 0..4usize { for lf in [0u32, 1, 65535, 65536, 65537, 1 << 20, 1 << 31, u32::MAX] { for flag in [0u32, 1, 7] { for body in [0usize, 16, 70_000] { hh.push(Case::HostileHeader { mode_pass, len_field: lf, flag, body, keep_records: keep }); } } } } }
    ctx.sse_vec("hostile_header_fields", "2 AAD modes x 0..3 authentic 64 KiB records x 8 length-field values x 3 flag values x 3 body sizes; heap and read-ahead compared with the honest stream", hh, check);
    ctx.sse_vec("hostile_tail", "complete authentic stream + 1 B .. 16 MiB of trailing bytes, both AAD modes: heap and read-ahead bounded as for the honest stream", [1usize, 100, 70_000, 1 << 20, 16 << 20].iter().flat_map(|&tail| [false, true].map(move |mode_pass| Case::HostileTail { mode_pass, tail })).collect(), check);
    // valid key strings with one character inserted / doubled (lenient validation + strict use would panic)
    let vsk = kspec::lock_private_key_with(&[7u8; 32], &[9u8; 32], &[3u8; 32]); let vpk = kspec::encode_public_key(&kspec::x25519_base(&[5u8; 32]));
    let mut ins = Vec::new();
    for base in [&vsk, &vpk] { let cs: Vec<char> = base.chars().collect(); for pos in 0..=cs.len() { for ch in [' ', '\n', '\t', '\r', '=', '-', 'A'] { let mut v = cs.clone(); v.insert(pos, ch); ins.push(Case::KeyString { s: v.into_iter().collect() }); } } }
    ctx.sse_vec("key_string_insertions", "a valid locked key (112 chars) and a valid public key (48 chars) with each of 7 characters inserted at every position", ins, check);
    ctx.sse_vec("authentic_records_with_other_flags", "3-record streams with valid tags whose flag at position 0/1/2 is one of 11 values outside {0,1}, both AAD modes", [2u32, 3, 255, 256, 65535, 1 << 16, 1 << 24, 1 << 31, u32::MAX - 1, u32::MAX, 0x0100_0000].iter().flat_map(|&flag| (0u8..3).flat_map(move |at| [false, true].map(move |mode_pass| Case::ForgedFlag { flag, at, mode_pass }))).collect(), check);
    ctx.sse_vec("pass_header_kdf_cost", "forged password-mode headers: number of scrypt-sized allocations and peak heap equal to the honest file's", [0u32, 70_000, u32::MAX].iter().flat_map(|&lf| [0usize, 100].map(move |b| PassCost { len_field: lf, salt: lf as u64 + b as u64, body: b })).collect(), check_pass_cost);
    let seed = ctx.seed;
    ctx.pbt("mutants_no_panic", ctx.n(40_000, 1_000_000), || super::c03::strat(PoolSel::KeySmall, seed, 6, 100), check_mutant);
    ctx.pbt("mutants_hook_no_panic", ctx.n(40_000, 1_000_000), || super::c03::strat(PoolSel::HookPass, seed, 6, 100), check_mutant);
    ctx.pbt("random_inputs", ctx.n(60_000, 2_000_000), || prop_oneof![
        (0usize..700, any::<u64>(), 0u8..3).prop_map(|(len, s, via)| Case::File { len, fill: Fill::Random(s), via }),
        (0usize..400, any::<u64>()).prop_map(|(len, s)| Case::Handshake { len, fill: Fill::Random(s) }),
        (0usize..200, any::<u64>()).prop_map(|(len, s)| Case::Handshake { len, fill: Fill::AuthenticPlusExtension(s) }),
        (0usize..129, Just(())).prop_map(|(len, _)| Case::Handshake { len, fill: Fill::PrefixOfAuthentic }),
        (0usize..300, any::<u64>(), 0usize..20).prop_map(|(len, s, aad_len)| Case::Aead { len, fill: Fill::Random(s), aad_len }),
        prop_oneof!["[A-Za-z0-9+/=]{0,130}", "\\PC{0,50}", "[A-Za-z0-9+/]{48}", "[A-Za-z0-9+/]{112}"].prop_map(|s| Case::KeyString { s }),
    ], check);
    { let pk = [kspec::encode_public_key(&kspec::x25519_base(&[1u8; 32])), kspec::encode_public_key(&kspec::x25519_base(&[2u8; 32]))]; let mut uni = Vec::new();
      for ch in ['é', '€', '😀'] { for k in 0..4usize { for n in 1..=70usize { let name = format!("{}{}", "x".repeat(k), ch.to_string().repeat(n)); if name.len() > 150 { break; }
        uni.push(Text { t: format!("[Key]\nName = {}\nPublicKey = {}\n\n[Key]\nName = {}\nPublicKey = {}\n", name, pk[0], name, pk[1]) }); uni.push(Text { t: format!("[Key]\nName = {}\nPublicKey = {}\n", name, pk[0]) }); } } }
      ctx.sse_vec("keyring_unicode_names", "keyrings whose names are multi-byte characters at every byte alignment and length up to 150 bytes (valid, over-long, duplicated)", uni, |t: &Text| { let _ = Keyring::new(&t.t); ok(true, "keyring-unicode") }); }
    { // accepted keyrings whose entries hold arbitrary 36-byte blobs (wrong checksums included): the lookup the CLI does after a decryption must not crash
      let mut kr = Vec::new();
      for k in 0..200u64 { let blobs: Vec<String> = (0..1 + k % 4).map(|i| { let mut b = gen::bytes_from(k * 7 + i, 36); if i % 2 == 0 { let h = kspec::sha256(&b[..32]); b[32..].copy_from_slice(&h[..4]); } kspec::base64(&b) }).collect();
        kr.push(Text { t: blobs.iter().enumerate().map(|(i, b)| format!("[Key]\nName = n{}\nPublicKey = {}\n", i, b)).collect::<String>() }); }
      ctx.sse_vec("keyring_lookup_bad_checksums", "200 accepted keyrings with 1..4 entries of arbitrary 36-byte blobs: get_name_from_key for present and absent keys", kr, |t: &Text| {
        if let Ok(k) = Keyring::new(&t.t) { for probe in [kspec::encode_public_key(&[7u8; 32]), t.t.lines().filter_map(|l| l.strip_prefix("PublicKey = ")).last().unwrap_or("").to_string()] { if let Ok(e) = EncodedPk::try_from(probe.as_str()) { let _ = k.get_name_from_key(&e); } } let _ = k.get_key("n0"); }
        ok(true, "keyring-lookup") });
      let big: Vec<Text> = [10_000usize, 200_000, 3_000_000].iter().flat_map(|&n| [Text { t: format!("{}[Key]\nName = a\nPublicKey = {}\n", "\n".repeat(n), kspec::encode_public_key(&[7u8; 32])) }, Text { t: format!("[Key]\nName = a\n{}PublicKey = {}\n", "# c\n".repeat(n), kspec::encode_public_key(&[7u8; 32])) }]).collect();
      ctx.sse_vec("keyring_many_ignorable_lines", "10^4 .. 3*10^6 consecutive blank / comment lines around a valid entry", big, |t: &Text| { ensure!(Keyring::new(&t.t).is_ok(), "a keyring with many blank or comment lines was rejected"); ok(true, "keyring-many-lines") }); }
    ctx.pbt("keyring_texts", ctx.n(30_000, 800_000), || prop_oneof!["\\PC{0,300}", "(\\[Key\\]|Name|PublicKey|PrivateKey|=| |\t|\n|\r\n|#|[a-zA-Z0-9+/]{1,48}|[a-zA-Z0-9+/]{112}){0,40}", "(\\[Key\\]\nName = [a-z]{0,3}\nPublicKey = [A-Za-z0-9+/=]{40,52}\n){1,3}"].prop_map(|t| Text { t }), |t: &Text| { let _ = Keyring::new(&t.t); ok(t.t.contains("[Key]"), "keyring-text") });
    ctx.shrink_iters.store(200, std::sync::atomic::Ordering::Relaxed);
    let maxlen = 3u32; let total = (0..=maxlen).map(|l| VOCAB.pow(l)).sum::<usize>() * 2;
    ctx.sse("argv_sequences", &format!("every argument vector of <= {} tokens over a {}-token vocabulary x keyring variable {{valid, unset}}", maxlen, VOCAB), if ctx.quick() { total } else { total }, argv_from_index, check_argv);
    // key strings as command-line arguments of the real binary
    let mut keyargs: Vec<KeyArg> = Vec::new();
    { let cs: Vec<char> = vsk.chars().collect(); for pos in (0..=cs.len()).step_by(7) { for ch in [' ', '\n', '=', '-'] { let mut v = cs.clone(); v.insert(pos, ch); keyargs.push(KeyArg { s: v.iter().collect(), cmd: (pos % 2) as u8 }); } }
      for l in [0usize, 1, 47, 48, 111, 113, 200] { keyargs.push(KeyArg { s: vsk.chars().cycle().take(l).collect(), cmd: (l % 2) as u8 }); } keyargs.push(KeyArg { s: vpk.clone(), cmd: 0 }); keyargs.push(KeyArg { s: "é".repeat(56), cmd: 1 }); }
    ctx.sse_vec("cli_key_arguments", "malformed and near-valid locked-key strings given to `key extract-pub` / `key change-pass`, and the same strings as the PrivateKey line of the keyring used by `decrypt`", keyargs, check_keyarg);
    { let d = loc_dictionary(); let mut v = Vec::new(); for loc in &d { for place in 0..4u8 { for home in 0..4u8 { if home > 0 && loc.first() != Some(&b'~') && loc.first() != Some(&b'$') { continue; } for cmd in 0..2u8 { v.push(Loc { loc: loc.clone(), place, home, cmd }); } } } }
      ctx.sse_vec("path_like_arguments", "a dictionary of 41 hostile or odd strings (~ forms, empty, directories, devices, /proc files, non-UTF-8, 5000 bytes, shell and format metacharacters) as keyring location (-k and KESTREL_KEYRING), input FILE and -o target of complete encrypt / decrypt command lines; ~ and $ forms under HOME unset / valid / not UTF-8 / empty", v, check_loc);
      ctx.pbt("path_like_arguments_random", ctx.n(1_500, 40_000), || (prop_oneof![proptest::collection::vec(any::<u8>(), 0..20), "[~/.$a-z]{1,12}".prop_map(|s| s.into_bytes()), "\\PC{1,8}".prop_map(|s| s.into_bytes())], 0u8..4, 0u8..4, 0u8..2).prop_map(|(loc, place, home, cmd)| Loc { loc, place, home, cmd }), check_loc); }
    // the reader of the tool's output goes away: an error exit, never death by signal (shared with C12)
    { use super::c12::{Case as C12, Req, FileKind, SenderPos, Sink, wiring_from}; let mut v = Vec::new();
      for (i, req) in [Req::KeyEnc, Req::KeyDec(FileKind::Authentic), Req::PassEnc, Req::PassDec(FileKind::Authentic)].into_iter().enumerate() { for len in [1usize, 300_000] { v.push(C12 { req, plain: gen::Plain { len, seed: ctx.seed + 70 + i as u64 }, chunks: vec![], pos: SenderPos::First, wirings: vec![wiring_from(0)], sink: Sink::ClosedPipe, sel: ctx.seed, prior_out: None, env_decoy: 0, in_name: 0, typed: false, out_kinds: vec![], in_kinds: vec![], names: 0 }); } }
      ctx.sse_vec("output_reader_gone", "encrypt / decrypt / password encrypt / password decrypt writing 1 B and 300 kB to a pipe nobody reads any more: exit status 1 with an Error: line, no signal", v, super::c12::check); }
    ctx.pbt("argv_random", ctx.n(6_000, 150_000), || (proptest::collection::vec(0usize..VOCAB, 0..9), 0u8..4).prop_map(|(toks, env_keyring)| Argv { toks, env_keyring }), check_argv);
}
