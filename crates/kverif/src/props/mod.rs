use crate::core::Ctx;
pub mod c01;
pub mod c02;
pub mod c05;
pub mod c06;
pub mod c07;
pub mod c08;
pub mod c09;
pub mod c10;
pub mod c11;
pub mod c12;
pub mod c13;
pub mod c14;
pub mod c15;
pub mod c16;
pub mod c17;
pub mod c18;
pub mod c19;
pub mod c20;
pub mod c03;
pub mod c04;

pub fn run(ctx: &Ctx) -> bool {
    match ctx.id.as_str() {
        "C01" => c01::run(ctx),
        "C02" => c02::run(ctx),
        "C05" => c05::run(ctx),
        "C06" => c06::run(ctx),
        "C07" => c07::run(ctx),
        "C08" => c08::run(ctx),
        "C09" => c09::run(ctx),
        "C10" => c10::run(ctx),
        "C11" => c11::run(ctx),
        "C12" => c12::run(ctx),
        "C13" => c13::run(ctx),
        "C14" => c14::run(ctx),
        "C15" => c15::run(ctx),
        "C16" => c16::run(ctx),
        "C17" => c17::run(ctx),
        "C18" => c18::run(ctx),
        "C19" => c19::run(ctx),
        "C20" => c20::run(ctx),
        "C03" => c03::run(ctx),
        "C04" => c04::run(ctx),
        _ => return false,
    }
    true
}
pub fn tool(name: &str, args: &[String]) -> i32 {
    match name {
        "gen-golden" => c06::gen_golden(std::path::Path::new(args.first().map(|s| s.as_str()).unwrap_or("/verif/golden"))),
        "bench-cli" => {
            let n = 500; let t = std::time::Instant::now();
            for _ in 0..n { let sb = crate::cli::Sandbox::new(); sb.write("a", b"x"); sb.write("b", b"y"); sb.write("c", b"z"); }
            println!("sandbox+3 files: {:?} each", t.elapsed() / n);
            let sb = crate::cli::Sandbox::new(); let t = std::time::Instant::now();
            for _ in 0..n { let r = sb.cmd(&["-v"]).run(); assert_eq!(r.code, Some(0)); }
            println!("run -v: {:?} each", t.elapsed() / n);
            let t = std::time::Instant::now();
            for _ in 0..n { let o = std::process::Command::new(crate::cli::kestrel_bin()).arg("-v").output().unwrap(); assert!(o.status.success()); }
            println!("plain Command::output -v: {:?} each", t.elapsed() / n);
            0
        }
        _ => { eprintln!("unknown tool {}", name); 2 }
    }
}
