#!/usr/bin/env python3
"""Writes /verif/MANIFEST.json from the table below (one place to edit)."""
import json, subprocess, os
ALL = ["C%02d" % i for i in range(1, 21)]
E = "exploration"; F = "fault_enumeration"
PBT = "property-based testing (proptest, seeded from VERIF_SEED, shrinking) "
SSE = "small-scope exhaustive enumeration "
CHECKS = {
 "C01": dict(cat=E, ref="§5 C01", tech=PBT + "over plaintexts/keys/randomness modes/4 I/O schedules + " + SSE + "of read partitions through the hooked chunk loops; oracle: round-trip identity, reported sender = S's public key",
   text="Generated-input search: round trip through the real key_encrypt/key_decrypt with scripted short reads and partial writes (lengths biased to 0 and k*65536±1), plus every composition of every length 0..=3cs+1 into reads for chunk sizes 1..4 (thorough 1..6) through the chunk loops. Finds counterexamples; does not prove absence. Cases may begin with 0..3 earlier encryptions on the same thread among {sender, recipient, third party} (state kept between calls is inside the case); only one half of an ephemeral pair may be supplied; one plaintext in 16 is itself kestrel output (magic / whole golden file).",
   note="Readers are conforming; sizes up to 300 kB quick / 4 MiB thorough; kestrel's own randomness is not pinned; the chunk loop is parametric in the chunk size (layer A samples the real size); run against the library built with and without debug assertions. Also run against the library built with default-features = false (third build configuration)."),
 "C02": dict(cat=E, ref="§5 C02", tech=PBT + "over plaintexts, byte-string passwords, salts, I/O schedules; oracle: round trip + every generated non-equivalent wrong password rejected with zero bytes released",
   text="Round trip through pass_encrypt/pass_decrypt for empty/ASCII/Unicode/raw/62..300-byte passwords, then decryption under constructed wrong passwords (1-bit flip, last byte, prefix, appended byte, case, empty, unrelated) which must fail before any write. Wrong passwords include w plus 256 / 65536 further bytes and w minus 256 (lengths that collide in 8 or 16 bits). The CLI layer gives the ciphertext as regular FILE, named pipe, /dev/stdin bound to a pipe, or stdin.",
   note="Passwords that are the same HMAC key (w vs w||00, long w vs SHA-256(w)) derive the same scrypt key by RFC 2104/7914 and are excluded from 'other password'; bounded by scrypt cost (hundreds of cases quick, thousands thorough)."),
 "C03": dict(cat=E, ref="§5 C03", tech=SSE + "(all bit flips, truncations, extensions, record sequences, header/chunk exchange) + " + PBT + "of multi-step mutation programs + libFuzzer targets (thorough); oracle: accepted => complete plaintext of the governing authentic file and file authentic outside counter fields",
   text="Authentic pools built with the implementation's own encryptor (key mode, password mode, hooked chunk loop with tiny chunks); every single-bit flip / proper prefix / 1-byte extension / record rearrangement / header-field or chunk-range splice of the enumerated files, and generated programs over larger pools incl. 64 KiB chunks. The CLI layer covers key and password mode, FILE argument or stdin, -o or stdout, and a dictionary of tails (line ends, NUL, ^Z, BOM ...).",
   note="AEAD forgery probability 2^-128 ignored; counter-field edits may be accepted or rejected; password-mode chunk areas mostly go through the hooked loop with the real derived key (4 % and all header edits through pass_decrypt)."),
 "C04": dict(cat=E, ref="§5 C04", tech=SSE + "and " + PBT + "of mutated/authentic files presented through a 1-byte-dribble reader to a recording sink, with injected I/O faults; libFuzzer target keyfile_mut (thorough); oracle: invariant over the interleaved read/write event log",
   text="For every presented file the event log must show: sink content is a prefix of the authentic plaintext made of chunks authentic in the presented file; no byte of chunk j written before the reader delivered the end of record j; whole chunks only; Ok only for the authentic file, fully read to EOF; nothing written after a reported fault. CLI: a decryption whose reader has gone (closed pipe, /dev/full) never reports success.",
   note="Authentic = produced by the implementation's encryptor; write-before-trailing-data-probe order is not asserted (the statement does not forbid it)."),
 "C05": dict(cat=E, ref="§5 C05", tech=PBT + "over constructed forgery classes (real encryptor with mismatched keys, specification-built handshakes, field splices, all 14 small-order encodings); oracle: outcome fixed by construction",
   text="Every constructed non-honest file must be rejected with nothing written; encryption to a zero-forcing recipient key must fail before the sink is touched; honest controls must decrypt and name S. Includes the library's own encryptor run with an attacker's private key and S's public key right after S's own encryption to the same recipient. CLI: the sender line for 99-character names next to entries named like their beginning, password from the environment and typed at a pseudo-terminal.",
   note="Forged handshakes come from the independent specification (kspec); the evidence records that kspec-written honest files are accepted, so rejections are due to the construction."),
 "C06": dict(cat=E, ref="§5 C06", tech=PBT + "differential against an independent executable specification (kspec) in both directions + golden corpus + Noise nonce layout via hook",
   text="Byte equality of key_encrypt/pass_encrypt output with the specification for generated keys/ephemeral/payload/salt/plaintext/read schedules; specification-written files with arbitrary legal chunkings must decrypt; 25 golden files written by the pinned tree and the repository's 1.x test files must keep decrypting.",
   note="kspec is the reference; validated against RFC vectors at every start and against OpenSSL by tools/oracle_audit.py. Also run against the library built with default-features = false (third build configuration)."),
 "C07": dict(cat=E, ref="§5 C07", tech=PBT + "over operation histories (library and CLI) with repeated identical operations; oracle: pairwise-distinctness invariant over the history, per-file nonce i <-> record i, pooled monobit bound",
   text="Values the implementation draws itself (ephemeral keys, payload keys, file keys, generated private keys, salts) never repeat, never equal a supplied value, are not zero; each record opens under exactly its own position's nonce. `key change-pass` is also given several keys at once: every locked key it prints must carry its own salt.",
   note="Shows absence of repetition and gross bias, not unpredictability of getrandom. Also run against the library built with default-features = false (third build configuration)."),
 "C08": dict(cat=E, ref="§5 C08", tech=PBT + "metamorphic: identity-swap and password-swap pairs, layout parser, substring search; CLI runs with random names",
   text="Length formula, documented layout with nothing else in the file, identical cleartext fields for any two identity pairs given the same ephemeral key, no key/name/password as substring in any encoding. With only one half of an ephemeral pair supplied the header field must still not be a party's key nor a function of the identities. CLI: regular files of 8 MiB, 16 MiB and neighbours (exact multiples of the chunk size).",
   note="Needles >= 12 bytes (chance hit < 2^-64)."),
 "C09": dict(cat=E, ref="§5 C09", tech=SSE + "of input lengths per surface and of argument vectors (<= 3 tokens over 30) + " + PBT + "+ libFuzzer targets (thorough); oracle: every call returns / exit status in {0,1} with Error: line; counting-allocator resource relation for hostile headers",
   text="All lengths 0..600 (files), 0..300 + 65535/65536/70000 (handshake), 0..200 (AEAD), 0..130 (key strings) over several fills; mutation programs; 55 862 argument vectors; hostile length fields must not raise heap, largest allocation, read-ahead or KDF count above the honest case. Path-like arguments: 41 hostile strings (~ forms, devices, /proc files, non-UTF-8, 5000 bytes) as -k / KESTREL_KEYRING / FILE / -o of complete command lines with HOME unset, valid, non-UTF-8, empty. Writers whose reader has gone: exit 1, never death by signal.",
   note="Caller preconditions (key/nonce sizes) respected; an abort kills kverif and is triaged from the per-worker crash trace (violation with a replay file); a case that does not return within the hang limit is a violation with a replay file."),
 "C10": dict(cat=F, ref="§5 C10", tech=SSE + "of every fault position (side x k-th call x 8 kinds) for small cases + " + PBT + "over schedules and faults; oracle: schedule independence, fired fault => error of the failing side, sink is prefix of fault-free sink",
   text="For 24 base cases every read/write/flush call index is failed with every kind (incl. Interrupted and zero-length write); generated cases cover 64 KiB chunks and password mode. Conversely, healthy sinks that are not regular files (-o /dev/stdout bound to a pipe, a named pipe with a reader, /dev/null) must receive the complete result.",
   note="Sources/sinks are conforming (failed call transfers nothing)."),
 "C11": dict(cat=E, ref="§5 C11", tech=PBT + "over sizes (to 64 MiB quick / 2 GiB + one 5 GiB thorough) with a counting global allocator and inline lag counters; oracle: peak heap independent of size, lag <= 2 chunks, byte-exact streaming round trip",
   text="Encryption piped into decryption through a bounded ring on two threads; thread-local peak heap compared with the 256 KiB run of the same build; chunk j (= j-th read that returned data, incl. 512-byte pipe-like reads) must be written before more than two further chunks are consumed; data after the final chunk must not cost memory; process level: peak RSS of the real binary on sparse 64 MiB / 1 GiB files (also with aliased in/out paths) and its read-ahead on a regular file while stdout is blocked (procfs). The lag bound is also checked against sinks that buffer like BufWriter (bytes count once flushed or spilled). Plaintext typed at a pseudo-terminal with no FILE operand: refused, or streamed with peak RSS independent of the amount.",
   note="Bounds are relative to the same build (+128 KiB) with generous absolute caps, so a benign extra buffer is not an alarm."),
 "C12": dict(cat=E, ref="§5 C12", tech=PBT + "over logical requests x keyring compositions x wiring variants of the real binary + " + SSE + "of all 64 wirings; oracle: exit status = by-construction verdict, content, sender line, metamorphic agreement of wirings",
   text="Runs the binary built from the working tree (CLI sources + working-tree library) in private directories with stdin/stdout/env/option-spelling/alias/order variants, damaged files, absent / look-alike senders, empty plaintexts, /dev/full and closed-pipe sinks, a longer file already at the -o path, and an unrelated KESTREL_KEYRING while -k is given. Wirings include -o targets that are not regular files (/dev/stdout as a pipe, FIFO, /dev/null). FILE operands that are named pipes, /dev/stdin, symbolic links, absolute paths; keyrings whose names are beginnings of each other.",
   note="Linux; passwords via --env-pass, and in one wiring typed at a pseudo-terminal (script(1)); each key operation costs one scrypt, so hundreds of invocations quick."),
 "C13": dict(cat=F, ref="§5 C13", tech=SSE + "of command x failure cause x prior state of the output path (generated instances) on the real binary; library companion by " + PBT + "; oracle: path unchanged (bytes, inode) / exactly the authenticated prefix",
   text="5 commands x every applicable listed cause (~125) x {absent, present} x instances; later-chunk failures must leave exactly the first j chunks. The output path may be a symbolic link (dangling or to the existing file): the link and its target obey the same rule.",
   note="Linux; failure of the output device itself is not a listed cause; the typed-password causes need script(1) (skipped with a note otherwise)."),
 "C14": dict(cat=E, ref="§5 C14", tech=PBT + "over histories of `key generate -o F` on generated initial files; oracle: byte-prefix preservation, parse, presence, unlock, usability",
   text="After every generation the old bytes are a prefix, the file parses, every name is present, the new key unlocks with its password and matches its PublicKey line; generated keys then encrypt/decrypt; initial files up to 4 MiB are verified through the tool itself; a generation that cannot append (file-size limit) must fail and lose nothing; a stale KESTREL_NEW_PASSWORD must not matter. Later names may be the beginning of earlier ones.",
   note="Names/passwords via stdin/env; found and fixed F3."),
 "C15": dict(cat=E, ref="§5 C15", tech=PBT + "differential against the specification's lock + " + SSE + "of blob bit flips and malformed strings; oracle: string equality, unlock∘lock = id, every flip / other password rejected",
   text="lock == documented format; all 32 version-bit flips and sampled (thorough: all 640) salt/ciphertext/tag flips rejected; strings of every length 0..130 over several alphabets never panic. The key commands of the binary (extract-pub, change-pass with new password different / equal / empty) on intact, bit-flipped and wrongly-passworded keys. Passwords that look like file indirections (@file, file:...) naming files that exist where the tool runs.",
   note="HMAC-equivalent passwords excluded; flips outside the version cost one scrypt each."),
 "C16": dict(cat=E, ref="§5 C16", tech=PBT + "model-based over change-pass/extract-pub/use histories of the real binary; oracle: model (sk, current password, salts seen)",
   text="New string unlocks to the same key with the new password, salt is new, old passwords fail, extract-pub equals the keyring encoding of the key's public key, no output contains the private key in any encoding. Every key command also runs under an unrelated KESTREL_KEYRING (missing, garbage, unparsable, valid).",
   note="Linux; passwords via environment."),
 "C17": dict(cat=E, ref="§5 C17", tech=SSE + "of token sequences (<=5 over 14 tokens x 4 renderings) and section sequences + " + PBT + "of tool-written keyrings, texts, key strings + libFuzzer (thorough); oracle: accepted => by-construction structure valid and lookups return the sections; write->parse round trip; checksum model",
   text="2.2 M token sequences, 87 k section sequences, every code point < U+3100 in names, tool-written keyrings with generated names, public-key strings vs strict base64 + SHA-256 checksum. Name length limit checked in bytes with 1-4-byte characters at the 128-byte boundary. Keyrings may start with an entry whose key has a mistyped checksum; lookups of the first half of a name find nothing.",
   note="Leniency for hand-written files is not demanded; found and fixed F4."),
 "C18": dict(cat=E, ref="§5 C18", tech=PBT + "differential against independent RFC 7914 code, OpenSSL (hashlib.scrypt) and through the C ABI (extern fn with guard bytes; C driver with ASan)",
   text="Parameters N=2^(1..15), r 1..16, p 1..8, dkLen 1..200 within the memory bound; exported C function writes exactly the requested bytes; header and implementation agree. Repeated with the allocator serving byte buffers at odd addresses and an odd output pointer. r up to 300 (fixed 129, 1024) and p up to 70 (fixed 300) with small N.",
   note="Caller preconditions respected; kspec != OpenSSL is reported as inconclusive (oracle fault), not as a violation."),
 "C19": dict(cat=E, ref="§5 C19", tech=SSE + "of (|m|,|aad|) grid, lengths, special points + " + PBT + "differential against independent RFC implementations; tamper sweeps; DH symmetry; nonce layout via hook",
   text="AEAD on the full 131x41 grid with bit-flip sweeps, X25519 on all small-order/non-canonical encodings with clamp noise, HKDF/HMAC/SHA-256 over length ranges. Histories over PrivateKey objects (new, generate, to_public, clone, clone_from, zeroize, DH) against a model of each object's current scalar. One message of 2^31 - 16 bytes (skipped with a note when memory is short).",
   note="kspec is the RFC reference (self-tested, OpenSSL-audited)."),
 "C20": dict(cat=E, ref="§5 C20", tech=PBT + "over generated clone/drop/move programs with allocator-side inspection at dealloc and read-back of inline storage",
   text="Every container value (from bytes, generated, cloned, clone_from target, boxed, boxed behind other bytes, inline at every address residue mod 8, dropped normally or while unwinding) must have zeroed key bytes in the storage it owns at the moment that storage is released. Constructors and clones run under a journal of released heap blocks; blocks holding the new key's bytes are counted as an observation only (a scratch buffer is not a key container and cannot be told from one there). A whole key_encrypt + key_decrypt with every key supplied runs under the journal: no released block may hold one of the private keys.",
   note="Only storage owned at drop time; not copies left by moves; run against the library built with and without debug assertions."),
}
NA_REASON = {}
def main():
    hooks_commits = subprocess.run(["git", "-C", "/repo", "log", "--format=%H %s"], capture_output=True, text=True).stdout.splitlines()
    hook_shas = [l.split()[0] for l in hooks_commits if "verif hooks" in l]
    checks = []
    for pid in ALL:
        if pid not in CHECKS: continue
        c = CHECKS[pid]
        checks.append({
            "property_id": pid,
            "quick_cmd": f"cd /verif && ./check {pid} quick",
            "thorough_cmd": f"cd /verif && ./check {pid} thorough",
            "evidence_file": f"/verif/evidence/{pid}.json",
            "replay_cmd_template": f"cd /verif && ./check {pid} --replay {{path}}",
            "engine": "kverif",
            "level_claimed": {"category": c["cat"], "text": c["text"], "design_ref": c["ref"]},
            "level_note": c["note"],
            "technique": c["tech"],
        })
    na = [{"property_id": p, "reason": NA_REASON.get(p, "check not built yet in this session (planned per DESIGN.md §5); nothing is claimed for it")} for p in ALL if p not in CHECKS]
    m = {
        "version": 1,
        "setup_cmd": "cd /verif && ./check setup",
        "hooks": {"guard": "verif-hooks", "enable": "cargo feature verif-hooks of kestrel-crypto (src/crypto/Cargo.toml), switched on by /verif/crates/kverif/Cargo.toml, /verif/crates/kverif_nd/Cargo.toml and /verif/fuzz/Cargo.toml; default off",
                  "baseline_off_cmd": "cd /repo && cargo test --workspace --no-fail-fast --offline", "source_commits": hook_shas, "add_only": True},
        "engines": [
            {"name": "kverif", "path": "/verif/crates/kverif", "serves_properties": sorted(CHECKS), "kind_free_text": "Rust binary: seeded proptest TestRunners on 16 worker threads (shrinking, replay files) + small-scope exhaustive enumerators sharing the same oracle functions; scripted Read/Write objects with an event log; counting allocator; CLI process driver"},
            {"name": "fuzz", "path": "/verif/fuzz", "serves_properties": ["C03", "C04", "C09", "C15", "C17", "C18", "C19"], "kind_free_text": "cargo-fuzz crate with 7 libFuzzer targets (ASan) whose bodies hold the semantic oracle of the property selected by KFUZZ_PROP; bounded campaigns in the thorough tier (fuzz/run.sh), seeds in /verif/corpus, crash artefacts become replay files"},
            {"name": "kspec", "path": "/verif/crates/kspec", "serves_properties": ["C05", "C06", "C15", "C17", "C18", "C19"], "kind_free_text": "independent executable specification (SHA-256, HMAC, HKDF, PBKDF2, scrypt, ChaCha20-Poly1305, X25519, Noise X, file/keyring formats, acceptance models) written from the RFCs; RFC vectors self-test at every start"},
        ],
        "checks": checks,
        "not_applicable": na,
        "notes": "Every command is ./check <ID> <tier>; it rebuilds from /repo's working tree (content-hash freshness guard; three build configurations: with debug assertions, without them, and - for C01, C06, C07 - the library with default-features = false), runs kverif with VERIF_SEED, and rewrites /verif/evidence/<ID>.json. Exit 0 held / 1 VIOLATION / 2 inconclusive (build failure - e.g. a change to the signature of a crate-private keyring function kverif calls -, oracle self-test failure, hang of a non-C09 case, watchdog). An abnormal end of kverif is triaged from the per-worker crash trace and reported as a VIOLATION with a replay file when a traced case reproduces it.",
    }
    if not na: del m["not_applicable"]
    json.dump(m, open("/verif/MANIFEST.json", "w"), indent=1)
    print("MANIFEST.json:", len(checks), "checks,", len(na), "not applicable")
if __name__ == "__main__": main()
