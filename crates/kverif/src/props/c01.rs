//! C01 — key-mode round trip: decrypt(encrypt(P)) = P and names the sender.
use crate::core::{ok, set_rule, CheckResult, Ctx};
use crate::ensure;
use crate::gen::{self, Plain, CS};
use crate::kx;
use crate::sio::{read_sizes, RSched, WSched};
use proptest::prelude::*;
use serde::{Deserialize, Serialize};
use std::sync::atomic::{AtomicU64, Ordering};

#[derive(Clone, Debug, Serialize, Deserialize)]
pub enum Rand { Fresh, Fixed { e: u64, p: u64 }, EOnly { e: u64 }, POnly { p: u64 }, /// only one half of the ephemeral pair is supplied (private or public): the API then draws a fresh pair
    EHalf { e: u64, private_half: bool } }

#[derive(Clone, Debug, Serialize, Deserialize)]
pub struct CaseA { pub plain: Plain, pub s: u64, pub r: u64, pub rand: Rand, pub prs: RSched, pub cws: WSched, pub crs: RSched, pub pws: WSched,
    /// encryptions done on the same thread just before the one under test, each (sender, recipient) drawn from
    /// {this case's sender, this case's recipient, a third party}: the result must not depend on what the library did before
    #[serde(default)] pub before: Vec<(u8, u8)> }

#[derive(Clone, Debug, Serialize, Deserialize)]
pub struct CaseB { pub cs: u32, pub reads: Vec<usize>, pub wsel: u8, pub aad_pass: bool, pub seed: u64 }

pub fn rand_strategy() -> impl Strategy<Value = Rand> {
    prop_oneof![Just(Rand::Fresh), (any::<u64>(), any::<u64>()).prop_map(|(e, p)| Rand::Fixed { e, p }), any::<u64>().prop_map(|e| Rand::EOnly { e }), any::<u64>().prop_map(|p| Rand::POnly { p }), (any::<u64>(), any::<bool>()).prop_map(|(e, private_half)| Rand::EHalf { e, private_half })]
}

pub fn strat_a(max: usize) -> impl Strategy<Value = CaseA> {
    gen::plain_strategy(max).prop_flat_map(|plain| {
        let l = plain.len;
        (Just(plain), any::<u64>(), any::<u64>(), rand_strategy(), gen::rsched_for(l), gen::wsched_for(l + 200), gen::rsched_for(l + 200), gen::wsched_for(l))
    }).prop_flat_map(|t| (Just(t), prop_oneof![2 => Just(Vec::new()), 1 => proptest::collection::vec((0u8..3, 0u8..3), 1..4)]))
      .prop_map(|((plain, s, r, rand, prs, cws, crs, pws), before)| CaseA { plain, s, r: if r % 16 == 0 { s } else { r }, rand, prs, cws, crs, pws, before })
}

pub static SPEC_AGREE: AtomicU64 = AtomicU64::new(0);
pub static SPEC_DISAGREE: AtomicU64 = AtomicU64::new(0);

pub fn check_a(c: &CaseA) -> CheckResult {
    let p = c.plain.bytes();
    // one case in sixteen: the sender encrypts to their own key (S and R are the same key pair)
    let s = kx::ident(c.s, "S"); let r = if c.r == c.s { s.clone() } else { kx::ident(c.r, "R") };
    let third = kx::ident(c.s ^ c.r ^ 0x3333, "T");
    for (i, (a, b)) in c.before.iter().enumerate() {
        let who = |x: u8| match x % 3 { 0 => &s, 1 => &r, _ => &third }; let (bs, br) = (who(*a), who(*b)); let msg = gen::bytes_from(c.s ^ i as u64 ^ 0x77, 40 + i);
        let f = kx::key_encrypt_simple(&msg, bs, &br.pk, None, None).map_err(|e| format!("an earlier encryption on the same thread failed: {}", e))?;
        let (dr, dsh) = kx::key_decrypt(&f, &RSched::full(), &WSched::all(), None, &br.sk, &br.pk);
        ensure!(matches!(dr, kx::DecRes::Ok(Some(x)) if x == bs.pk) && *dsh.sink.borrow() == msg, "encryption #{} of a sequence on one thread ({:?} -> {:?} among sender / recipient / third party of this case) does not decrypt to its input and sender: {:?}", i, a % 3, b % 3, dr);
    }
    if let Rand::EHalf { e, private_half } = c.rand {
        let eb = gen::key32(e, "E"); let epub = kspec::x25519_base(&eb);
        let (res, esh) = kx::key_encrypt_halves(&p, &c.prs, &c.cws, &s.sk, &s.pk, &r.pk, if private_half { Some(&eb) } else { None }, if private_half { None } else { Some(&epub) }, None);
        ensure!(res.is_ok(), "key_encrypt with only the {} half of an ephemeral pair supplied failed: {:?}", if private_half { "private" } else { "public" }, res);
        let ct = esh.sink.take(); let (dres, dsh) = kx::key_decrypt(&ct, &c.crs, &c.pws, None, &r.sk, &r.pk);
        ensure!(matches!(dres, kx::DecRes::Ok(Some(x)) if x == s.pk) && *dsh.sink.borrow() == p, "a file made with only the {} half of an ephemeral pair supplied does not decrypt to the plaintext and sender: {:?}", if private_half { "private" } else { "public" }, dres);
        return ok(true, "ephemeral-half");
    }
    let (e, pl) = match c.rand { Rand::EHalf { .. } => (None, None), Rand::Fresh => (None, None), Rand::Fixed { e, p } => (Some(gen::key32(e, "E")), Some(gen::key32(p, "P"))), Rand::EOnly { e } => (Some(gen::key32(e, "E")), None), Rand::POnly { p } => (None, Some(gen::key32(p, "P"))) };
    let (res, esh) = kx::key_encrypt(&p, &c.prs, &c.cws, None, &s.sk, &s.pk, &r.pk, e.as_ref(), pl.as_ref());
    ensure!(res.is_ok(), "key_encrypt failed on a healthy source and sink: {:?}", res);
    let ct = esh.sink.take();
    let lens = read_sizes(&esh);
    let (dres, dsh) = kx::key_decrypt(&ct, &c.crs, &c.pws, None, &r.sk, &r.pk);
    let out = dsh.sink.take();
    match &dres {
        kx::DecRes::Ok(Some(sender)) => {
            ensure!(out == p, "round trip changed the plaintext: {} bytes in, {} bytes out, first difference at {:?}", p.len(), out.len(), p.iter().zip(out.iter()).position(|(a, b)| a != b));
            ensure!(*sender == s.pk, "decryption reported sender {} but the file was made by {}", kspec::hex(sender), kspec::hex(&s.pk));
            ensure!((*sender != r.pk || c.r == c.s) && ct.len() >= 36 && sender[..] != ct[4..36], "reported sender equals recipient or ephemeral key");
        }
        other => return Err(format!("key_decrypt rejected an authentic file: {:?} (plaintext {} bytes, chunk lengths {:?})", other, p.len(), lens)),
    }
    ensure!(dsh.src_off.get() == ct.len(), "decryption succeeded without consuming the whole ciphertext ({} of {})", dsh.src_off.get(), ct.len());
    if let (Some(e), Some(pl)) = (e, pl) {
        let spec = kspec::key_file(&s.sk, &r.pk, &e, &pl, &p, &lens);
        if spec == ct { SPEC_AGREE.fetch_add(1, Ordering::Relaxed); } else { SPEC_DISAGREE.fetch_add(1, Ordering::Relaxed); }
    }
    let nchunks = lens.len().max(1);
    let short = lens.iter().any(|&l| l < CS) && lens.len() > 1;
    let boundary = p.is_empty() || (p.len() % CS <= 1 || p.len() % CS == CS - 1) && p.len() >= CS - 1;
    let class = format!("{}{}{}", if nchunks >= 2 { "multi" } else { "single" }, if short { "+short" } else { "" }, if boundary { "+boundary" } else { "" });
    ok(nchunks >= 2 || short || boundary, class)
}

/// All compositions of n into parts 1..=maxpart.
pub fn compositions(n: usize, maxpart: usize) -> Vec<Vec<usize>> {
    fn rec(n: usize, m: usize, cur: &mut Vec<usize>, out: &mut Vec<Vec<usize>>) {
        if n == 0 { out.push(cur.clone()); return; }
        for p in 1..=m.min(n) { cur.push(p); rec(n - p, m, cur, out); cur.pop(); }
    }
    let mut out = Vec::new(); rec(n, maxpart, &mut Vec::new(), &mut out); out
}

pub fn check_b(c: &CaseB) -> CheckResult {
    let n: usize = c.reads.iter().sum();
    let p = gen::bytes_from(c.seed, n);
    let key = gen::key32(c.seed, "chunk-key");
    let aad: &[u8] = if c.aad_pass { &kspec::MAGIC_PASS } else { &[] };
    let ws = match c.wsel { 0 => WSched::all(), 1 => WSched::dribble(1), _ => WSched { accepts: vec![3, 1, 2], then: 5 } };
    let rs = RSched { gives: c.reads.clone(), then: 0 };
    let (res, esh) = kx::enc_chunks(&p, &rs, &ws, None, &key, aad, c.cs);
    ensure!(res.is_ok(), "encrypt_chunks failed: {:?}", res);
    let ct = esh.sink.take();
    ensure!(read_sizes(&esh) == c.reads, "harness: reads did not follow the schedule");
    for (i, crs) in [RSched::full(), RSched::dribble(1), RSched::dribble(3)].iter().enumerate() {
        let pws = if i == 1 { WSched::dribble(1) } else { WSched::all() };
        let (dres, dsh) = kx::dec_chunks(&ct, crs, &pws, None, &key, aad, c.cs);
        ensure!(dres.is_ok(), "decrypt_chunks rejected an authentic stream: {:?} (reads {:?}, cs {})", dres, c.reads, c.cs);
        ensure!(*dsh.sink.borrow() == p, "chunk round trip changed the plaintext (reads {:?}, cs {})", c.reads, c.cs);
        ensure!(dsh.src_off.get() == ct.len(), "stream not consumed");
    }
    ok(c.reads.len() >= 2 || n == 0, format!("cs{}/{}", c.cs, if c.reads.len() >= 2 { "multi" } else { "single" }))
}

/// Streams of very many chunks (chunk size 1 or 2 through the hook): counters beyond 255 and beyond 65535.
#[derive(Clone, Debug, Serialize, Deserialize)]
pub struct LongStream { pub cs: u32, pub len: usize, pub seed: u64 }
pub fn check_long(c: &LongStream) -> CheckResult {
    let p = gen::bytes_from(c.seed, c.len); let key = gen::key32(c.seed, "long-key");
    let (res, esh) = kx::enc_chunks(&p, &RSched::full(), &WSched::all(), None, &key, &[], c.cs); ensure!(res.is_ok(), "encrypt_chunks failed: {:?}", res);
    let ct = esh.sink.take(); let n = (c.len + c.cs as usize - 1) / c.cs as usize;
    let (dres, dsh) = kx::dec_chunks(&ct, &RSched::full(), &WSched::all(), None, &key, &[], c.cs);
    ensure!(dres.is_ok(), "a stream of {} chunks does not decrypt: {:?}", n, dres);
    ensure!(*dsh.sink.borrow() == p, "a stream of {} chunks decrypts to different bytes", n);
    ok(true, format!("long/{}chunks", if n > 65536 { ">65536" } else if n > 256 { ">256" } else { "<=256" }))
}

pub fn layer_b_cases(max_cs: u32) -> Vec<CaseB> {
    let mut v = Vec::new();
    for cs in 1..=max_cs { for n in 0..=(3 * cs as usize + 1) { for reads in compositions(n, cs as usize) { for wsel in 0..3u8 { for aad_pass in [false, true] {
        v.push(CaseB { cs, reads: reads.clone(), wsel, aad_pass, seed: (cs as u64) << 32 | (n as u64) << 8 | wsel as u64 });
    } } } } }
    v
}

/// The same property at the command line: `kestrel encrypt` then `kestrel decrypt`, data through files or real pipes.
#[derive(Clone, Debug, Serialize, Deserialize)]
pub struct CliCase { pub plain: Plain, pub enc_pipe: Option<Vec<u16>>, pub dec_pipe: Option<Vec<u16>>, pub enc_stdout: bool, pub dec_stdout: bool,
    /// the plaintext is given as a FILE argument that names a FIFO (not a regular file, not stdin)
    #[serde(default)] pub enc_fifo: bool }
/// Cut points given as fractions of the data length -> piece sizes (so small inputs are split as well).
pub fn pieces(cuts: &[u16], len: usize) -> Vec<usize> { let mut pos: Vec<usize> = cuts.iter().map(|&c| crate::core::pick(c, len + 1)).collect(); pos.sort(); let mut v = Vec::new(); let mut last = 0; for p in pos { if p > last { v.push(p - last); last = p; } } v }
pub fn check_cli(c: &CliCase) -> CheckResult {
    use crate::cli::{self, In, Sandbox};
    let id = super::c13::ids(); let sb = Sandbox::new(); let p = c.plain.bytes();
    sb.write("keys.txt", cli::keyring_text(&[(&id.alice, true), (&id.bob, true)]).as_bytes()); sb.write("p.bin", &p);
    // every other case: longer files are already sitting at the two output paths (a re-run over old results)
    let stale = c.plain.seed % 2 == 0; if stale { sb.write("c.ktl", &gen::bytes_from(1, p.len() + 900)); sb.write("out.bin", &gen::bytes_from(2, p.len() + 300)); }
    let fifo = c.enc_fifo && c.enc_pipe.is_some();
    let mut a = vec!["encrypt"]; if fifo { a.push("p.fifo"); } else if c.enc_pipe.is_none() { a.push("p.bin"); } a.extend(["-t", "bob", "-f", "alice", "-k", "keys.txt", "--env-pass"]); if !c.enc_stdout { a.extend(["-o", "c.ktl"]); }
    let mut cmd = sb.cmd(&a).env("KESTREL_PASSWORD", &id.alice.password);
    if let Some(sz) = &c.enc_pipe { if fifo { cmd.fifos.push(("p.fifo".into(), p.clone(), pieces(sz, p.len()))); } else { cmd = cmd.stdin(In::Pipe(p.clone(), pieces(sz, p.len()))); } }
    let r = cmd.run(); ensure!(r.code == Some(0), "kestrel encrypt failed: {}", r.describe());
    let ct = if c.enc_stdout { r.stdout.clone() } else { sb.read("c.ktl").ok_or("no ciphertext file")? }; sb.write("c2.ktl", &ct);
    let mut a = vec!["decrypt"]; if c.dec_pipe.is_none() { a.push("c2.ktl"); } a.extend(["-t", "bob", "-k", "keys.txt", "--env-pass"]); if !c.dec_stdout { a.extend(["-o", "out.bin"]); }
    let mut cmd = sb.cmd(&a).env("KESTREL_PASSWORD", &id.bob.password); if let Some(sz) = &c.dec_pipe { cmd = cmd.stdin(In::Pipe(ct.clone(), pieces(sz, ct.len()))); }
    let r = cmd.run(); ensure!(r.code == Some(0), "kestrel decrypt of a file the tool just wrote failed: {} ({} plaintext bytes, ciphertext {} bytes)", r.describe(), p.len(), ct.len());
    let out = if c.dec_stdout { r.stdout.clone() } else { sb.read("out.bin").ok_or("no plaintext file")? };
    ensure!(out == p, "command-line round trip changed the plaintext ({} bytes in, {} out)", p.len(), out.len());
    ensure!(r.stderr_s().contains("Success. File from: alice"), "decrypt did not report the sender: {}", r.stderr_s());
    let nchunks = if ct.len() > 132 { kspec::parse_records(&ct[132..]).map(|r| r.len()).unwrap_or(0) } else { 0 };
    ok(nchunks >= 2 || p.is_empty() || c.enc_pipe.is_some() || c.dec_pipe.is_some(), format!("cli/{}{}/{}chunks", if fifo { "fifo-arg" } else if c.enc_pipe.is_some() { "pipe-in" } else { "file-in" }, if c.dec_pipe.is_some() { "+pipe-dec" } else { "" }, nchunks.min(4)))
}

pub fn run(ctx: &Ctx) {
    set_rule("C01", "layer A: (plaintext length+seed, sender, recipient, randomness mode, 4 I/O schedules) through key_encrypt -> key_decrypt with the real 64 KiB chunk size; layer B: every composition of every length 0..=3cs+1 into reads <= cs for tiny chunk sizes through the hooked chunk loops x 3 sink schedules x 2 AADs x 3 decrypt schedules. CLI layer: `kestrel encrypt` then `kestrel decrypt` of the binary built from the working tree, data through files, stdout, or real pipes written in generated pieces. Non-trivial = >= 2 chunks, or a short read before the last, or length in {0, k*65536-1, k*65536, k*65536+1}; distinct by hash of the generated case (layer A) / enumeration index (layer B)");
    ctx.assume("readers are conforming (once they return 0 they keep returning 0); randomness drawn by kestrel itself is not pinned and no oracle depends on its value");
    let max = if ctx.quick() { 300_000 } else { 4 << 20 };
    ctx.pbt("roundtrip_api", ctx.n(40_000, 400_000), || strat_a(max), check_a);
    let cases = layer_b_cases(if ctx.quick() { 4 } else { 6 });
    let total = cases.len();
    ctx.sse_vec("roundtrip_chunks_sse", &format!("all compositions of lengths 0..=3cs+1 into reads<=cs, cs=1..={}, x3 sink schedules x2 AADs", if ctx.quick() { 4 } else { 6 }), cases, check_b);
    ctx.put("sse_space", serde_json::json!(total));
    ctx.sse_vec("long_streams", "chunk size 1 and 2: 255, 256, 257, 65535, 65536, 65537, 70000 and 131073 chunks", [255usize, 256, 257, 65535, 65536, 65537, 70000].iter().map(|&n| LongStream { cs: 1, len: n, seed: n as u64 }).chain([LongStream { cs: 2, len: 2 * 131073 - 1, seed: 9 }]).collect(), check_long);
    ctx.shrink_iters.store(20, std::sync::atomic::Ordering::Relaxed);
    let sizes = || proptest::option::of(proptest::collection::vec(any::<u16>(), 0..7));
    ctx.pbt("cli_files_and_pipes", ctx.n(64, 1_500), || (prop_oneof![1 => Just(Plain { len: 0, seed: 0 }), 4 => gen::small_plain(2000), 2 => gen::plain_strategy(300_000), 1 => (1usize..40).prop_map(|k| Plain { len: k * 4096, seed: 0 }), 1 => (0usize..200_000).prop_map(|len| Plain { len, seed: 0 })], sizes(), sizes(), any::<bool>(), any::<bool>(), any::<bool>()).prop_map(|(plain, enc_pipe, dec_pipe, enc_stdout, dec_stdout, enc_fifo)| CliCase { plain, enc_pipe, dec_pipe, enc_stdout, dec_stdout, enc_fifo }), check_cli);
    ctx.sse_vec("cli_zero_filled_and_fifo", "all-zero plaintexts of k*4096 bytes (a writer that skips zero blocks would lose the tail), data ending in a zero chunk, FIFO given as FILE", vec![
        CliCase { plain: Plain { len: 4096, seed: 0 }, enc_pipe: None, dec_pipe: None, enc_stdout: false, dec_stdout: false, enc_fifo: false },
        CliCase { plain: Plain { len: 131072, seed: 0 }, enc_pipe: None, dec_pipe: None, enc_stdout: false, dec_stdout: false, enc_fifo: false },
        CliCase { plain: Plain { len: 65536 + 8192, seed: 0 }, enc_pipe: None, dec_pipe: Some(vec![]), enc_stdout: true, dec_stdout: false, enc_fifo: false },
        CliCase { plain: Plain { len: 5000, seed: 77 }, enc_pipe: Some(vec![20000, 40000]), dec_pipe: None, enc_stdout: false, dec_stdout: false, enc_fifo: true },
        CliCase { plain: Plain { len: 0, seed: 78 }, enc_pipe: Some(vec![]), dec_pipe: None, enc_stdout: false, dec_stdout: true, enc_fifo: true },
        CliCase { plain: Plain { len: 150_000, seed: 79 }, enc_pipe: Some(vec![1000, 30000, 65000]), dec_pipe: None, enc_stdout: false, dec_stdout: false, enc_fifo: true }], check_cli);
    ctx.put("spec_agreement", serde_json::json!({"agree": SPEC_AGREE.load(Ordering::Relaxed), "disagree": SPEC_DISAGREE.load(Ordering::Relaxed), "note": "informational only; byte conformance is C06's verdict"}));
}
